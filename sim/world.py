"""Generated mapping worlds: several species with a start-resolution topology, an end-resolution
topology + coordinates, an unloaded solvent, and a system file with interleaved molecules.
Used by the pipeline (C05) and cli (C20) engines."""
from __future__ import annotations

import os

import numpy as np

from . import gen


def gen_world(rng, tier, *, min_species=2, max_species=5, allow_small_refs=True, max_mol=None, distractors=False):
    n_species = rng.randint(min_species, max_species)
    species = []
    used_kinds = set()
    for s in range(n_species):
        name = "SP%c" % (65 + s)
        c = rng.random()
        if allow_small_refs and c < 0.15:
            n_start = 1
        elif allow_small_refs and c < 0.35:
            n_start = 2
        else:
            n_start = rng.randint(3, 8)
        n_res = 1 if n_start < 2 or rng.random() < 0.7 else 2
        # start resolution: residue kinds unique to the species
        while True:
            base = "%c%c" % (rng.choice("KLMPQRTUVW"), rng.choice("ABCDEFGHIJ"))
            if base not in used_kinds:
                used_kinds.add(base)
                break
        start = gen.mol_spec(rng, name, n_start, n_res=n_res, resname=base + "S", p_hydrogen=0.0, spread=0.25)
        if n_res > 1:
            # mol_spec names multi-residue blocks base[:3]+letter; sizes must differ or names differ -> distinct signatures
            pass
        n_end = rng.randint(max(1, n_res), 12)
        if n_end == 1 and n_start == 1 and rng.random() < 0.5:
            n_end = rng.randint(2, 6)
        end = gen.mol_spec(rng, name, n_end, n_res=n_res, resname=base + "E", p_hydrogen=0.3, spread=0.12)
        if n_res > 1:
            # multi-residue molecules keep their residue names across resolutions (as proteins do); the automatic
            # restraint guess of Manager.align_molecules relies on it
            def per_res(spec):
                out, prev, r = [], None, -1
                for rn, ri in zip(spec["resnames"], spec["resids"]):
                    if (rn, ri) != prev:
                        r += 1
                        prev = (rn, ri)
                    out.append(r)
                return out
            sres = per_res(start)
            names_by_res = {}
            for i, r in enumerate(sres):
                names_by_res.setdefault(r, start["resnames"][i])
            end["resnames"] = [names_by_res[r] for r in per_res(end)]
            if list(zip(end["resnames"], end["atom_names"])) == list(zip(start["resnames"], start["atom_names"])):
                # (two atoms in two residues, and the random atom names coincide: both topologies would describe the molecules
                # of the system file and nothing could tell which resolution a file belongs to -- found by the seed sweep)
                end["atom_names"][0] = "Z" + end["atom_names"][0][1:]
        species.append({"name": name, "start": start, "end": end})
    solvent = {"resname": "SOL", "atoms": ["OW", "HW1", "HW2"]}
    max_mol = max_mol or (12 if tier == "quick" else 60)
    n_mol = rng.randint(2, max_mol)
    items = [("mol", rng.randrange(n_species)) for _ in range(n_mol)]
    # every species appears at least once (its topology must be loadable)
    for s in range(n_species):
        if not any(k == "mol" and i == s for k, i in items):
            items.insert(rng.randint(0, len(items)), ("mol", s))
    for _ in range(rng.choice([0, 1, 3, 8])):
        items.insert(rng.randint(0, len(items)), ("sol", 0))
    lines = []
    instances = []
    resid = rng.choice([1, 1, 250, "end"])
    if resid == "end":
        # the LAST residue of the file carries the largest number that fits five digits
        n_res_total = sum(1 if kind == "sol" else len(set(zip(species[idx]["start"]["resnames"], species[idx]["start"]["resids"])))
                          for kind, idx in items)
        resid = 99999 - n_res_total + 1
    # (a system cut out of a larger one keeps its atom numbers: the first atom of the file need not be number 1)
    atomid = rng.choice([1, 1, 1, 1, 1, 1, 2, 2001])
    gapped = resid < 90000 and rng.random() < 0.3
    share = rng.random() < 0.25          # numbering per complex / ion pair: neighbours of DIFFERENT species may share a number
    prev_key = None
    for kind, idx in items:
        key = ("sol", 0) if kind == "sol" else ("mol", idx)
        if share and prev_key is not None and key != prev_key and rng.random() < 0.6 and resid > 1:
            resid -= 1                    # this molecule's first residue carries the number of the previous one's last
        prev_key = key
        if kind == "sol":
            for an in solvent["atoms"]:
                p = [round(rng.uniform(0, 12), 3) for _ in range(3)]
                lines.append("%5d%-5s%5s%5d%8.3f%8.3f%8.3f" % (resid, solvent["resname"], an, atomid, *p))
                atomid += 1
            resid += 1
            continue
        sp = species[idx]["start"]
        n = len(sp["atom_names"])
        R = gen.random_rotation(rng)
        t = np.array([rng.uniform(0, 12) for _ in range(3)])
        pos = np.array(sp["positions"]) @ R.T + t
        if rng.random() < 0.5:      # a deformed conformation
            pos = pos + np.array([gen.rvec(rng, 0.03) for _ in range(n)])
        pos = gen.round3(pos)
        nres0 = len(set(zip(sp["resnames"], sp["resids"])))
        rl = None
        if gapped and nres0 >= 2 and rng.random() < 0.5:
            # residue numbers with gaps INSIDE one molecule (a chain cut out of a larger structure keeps its numbering)
            rl, cur_ = [], resid
            for _k in range(nres0):
                rl.append(cur_)
                cur_ += rng.choice([1, 2, 2, 7])
        ls, nres = gen.gro_atom_lines(sp, pos, resid, atomid, resid_list=rl if rl is not None and len(rl) == nres0 else None)
        if rl is not None and nres != nres0:
            rl = None
            ls, nres = gen.gro_atom_lines(sp, pos, resid, atomid)
        lines += ls
        instances.append({"species": idx, "positions": pos, "resids": list(range(resid, resid + nres)) if rl is None else list(rl),
                          "atomids": list(range(atomid, atomid + n))})
        resid = resid + nres if rl is None else rl[-1] + 1
        atomid += n
    if rng.random() < 0.08:
        box = [round(rng.uniform(100, 999), 5) for _ in range(3)]      # a large system: three-digit edges, five decimals in use
    elif rng.random() < 0.5:
        box = [round(rng.uniform(5, 30), 5) for _ in range(3)]
    else:
        d = [round(rng.uniform(5, 30), 5) for _ in range(3)]
        off = [round(rng.uniform(-2, 2), 5), round(rng.uniform(-2, 2), 5), round(rng.uniform(-2, 2), 5)]
        shape = rng.random()
        if shape < 0.2:
            off = [off[0], 0.0, 0.0]          # monoclinic / hexagonal: only v2(x) differs from zero
        elif shape < 0.4:
            off = [0.0, off[1], off[2]]       # only the third vector is tilted
        elif shape < 0.5:
            off = [0.0, 0.0, off[2]]          # only v3(y)
        box = d + [0.0, 0.0, off[0], 0.0, off[1], off[2]]
    title = rng.choice(["Mapped world", "t= 100.000 step= 5000", "  two  spaces ", "System; with [brackets] and #hash",
                        "x" * 60, "l\u00edquido i\u00f3nico a 300 K (Jos\u00e9)", "\u03c3 = 0.34 nm, 25 \u00b0C", 'mixture {"T": 300, "x": 0.5} {figures} {0}', "100% {} %s %d"]) + " %d" % rng.randrange(1000)
    if rng.random() < 0.15:
        title += rng.choice(["  ", " ", "\t", " " * 20])      # a title padded with trailing blanks
    # end coordinates: placed around the first instance of the species (roughly overlapped), 3 decimals
    for s, spc in enumerate(species):
        first = next(i for i in instances if i["species"] == s)
        centre = np.mean(np.array(first["positions"]), axis=0)
        e = spc["end"]
        pos = np.array(e["positions"])
        pos = pos - pos.mean(axis=0) + centre + np.array(gen.rvec(rng, 0.2))
        e["positions"] = gen.round3(pos)
        if rng.random() < 0.25:
            # the end coordinates come from a trajectory frame: velocity columns (on some species only, as a rule)
            e["velocities"] = [[round(rng.uniform(-2, 2), 4) for _ in range(3)] for _ in range(len(e["positions"]))]
    return {"species": species, "solvent": solvent, "lines": lines, "instances": instances, "box": box, "title": title}


def system_text(world):
    return gen.gro_text(world["title"], world["lines"], world["box"])


def end_gro_text(spec):
    ls, _ = gen.gro_atom_lines(spec, spec["positions"], 1, 1)
    if spec.get("velocities"):
        ls = [l + "%8.4f%8.4f%8.4f" % tuple(v) for l, v in zip(ls, spec["velocities"])]
    return gen.gro_text("end resolution " + spec["name"], ls, [5.0, 5.0, 5.0])


def write_world(d, world, prefix="", dotted=False, itp_style=0):
    """Writes all files; returns dict of paths.  dotted: base names with several dots (force-field versions, temperatures)."""
    paths = {"system": os.path.join(d, prefix + "system.gro"), "species": []}
    with open(paths["system"], "w") as f:
        f.write(system_text(world))
    for sp in world["species"]:
        p = {"top_start": os.path.join(d, f"{prefix}{sp['name']}_CG{'_v2.2' if dotted else ''}.itp"),
             "gro_end": os.path.join(d, f"{prefix}{sp['name']}_AA{'.298.15K' if dotted else ''}.gro"),
             "top_end": os.path.join(d, f"{prefix}{sp['name']}_AA{'.opls' if dotted else ''}.itp")}
        with open(p["top_start"], "w") as f:
            f.write(gen.itp_text(sp["start"], style=itp_style))
        with open(p["top_end"], "w") as f:
            f.write(gen.itp_text(sp["end"], style=itp_style and itp_style + 1))
        with open(p["gro_end"], "w") as f:
            f.write(end_gro_text(sp["end"]))
        paths["species"].append(p)
    return paths


def box_matrix(box):
    b = np.zeros(9)
    for idx, v in zip((0, 4, 8, 1, 2, 3, 5, 6, 7), box):
        b[idx] = v
    return b.reshape(3, 3)
