"""Seams the simulator owns.  None of them needs a change in /repo: every one is a module
attribute that the library resolves at call time.

 * FileSeam    -- `open` as seen by gaddlemaps.parsers and gaddlemaps.parsers._itp_parse:
                  records every write/seek/close as an event and can rebuild the disk image
                  at any crash point (optionally with a torn last write).
 * RandomSeam  -- numpy.random.{rand,uniform,normal,choice,randint,random,random_sample}:
                  logs (site, function, value), applies the run's override script.
 * patched()   -- generic, restoring replacement of a module global (monitors, stubs).
"""
from __future__ import annotations

import builtins
import contextlib
import os
import sys

import numpy as np

from .core import HarnessError


@contextlib.contextmanager
def patched(module, name, value):
    missing = object()
    old = module.__dict__.get(name, missing)
    setattr(module, name, value)
    try:
        yield old
    finally:
        if old is missing:
            try:
                delattr(module, name)
            except AttributeError:
                pass
        else:
            setattr(module, name, old)


# --------------------------------------------------------------------------
# file seam
# --------------------------------------------------------------------------

class TracedFile:
    def __init__(self, seam, real, path, mode, fid):
        self._seam = seam
        self._real = real
        self._path = path
        self._fid = fid
        self.mode = mode
        self.name = path
        self._closed = False

    # -- writing side: every call is one event ---------------------------------
    def write(self, s):
        self._seam.event(self._fid, "write", s)
        return self._real.write(s)

    def seek(self, pos, whence=0):
        if whence != 0:
            raise HarnessError("file seam: seek with whence != 0 is not modelled")
        if "r" not in self.mode:
            self._seam.event(self._fid, "seek", pos)
        return self._real.seek(pos)

    def close(self):
        if not self._closed:
            self._closed = True
            # read handles are closed whenever the garbage collector finds their owner (SystemGro.__del__): logging
            # that would put a GC-timed event into the log.  Only writers are part of the history.
            if "r" not in self.mode:
                self._seam.event(self._fid, "close", None)
            self._real.close()

    def flush(self):
        self._seam.event(self._fid, "flush", None)
        return self._real.flush()

    def truncate(self, size=None):
        # (not used by the library as shipped; a transparent seam still has to offer what a file offers)
        if size is None:
            size = self._real.tell()
        if "r" not in self.mode:
            self._seam.event(self._fid, "truncate", size)
        return self._real.truncate(size)

    def fileno(self):
        return self._real.fileno()

    def writable(self):
        return self._real.writable()

    def readable(self):
        return self._real.readable()

    def seekable(self):
        return self._real.seekable()

    # -- reading side ---------------------------------------------------------
    def tell(self):
        return self._real.tell()

    def readline(self, *a):
        return self._real.readline(*a)

    def read(self, *a):
        return self._real.read(*a)

    def readlines(self, *a):
        return self._real.readlines(*a)

    def __iter__(self):
        return iter(self._real)

    def __next__(self):
        return next(self._real)

    @property
    def closed(self):
        return self._real.closed

    def __enter__(self):
        return self

    def __exit__(self, *a):
        self.close()

    def __del__(self):
        # CPython closes an unreferenced file object; ItpFile.write relies on that
        try:
            self.close()
        except Exception:
            pass


class FileSeam:
    """Interposes on `open` for the parser modules and keeps the operation log."""

    def __init__(self, ctx=None, log_reads=False):
        self.ctx = ctx
        self.events = []      # (fid, kind, arg)
        self.files = []       # fid -> (path, mode)
        self._installed = []

    def open(self, path, mode="r", *args, **kwargs):
        real = builtins.open(path, mode, *args, **kwargs)
        if "b" in mode:
            raise HarnessError("file seam: binary mode is not modelled")
        fid = len(self.files)
        # (absolute at the moment of opening: a relative name means something else once the working directory changes)
        self.files.append((os.path.abspath(os.fspath(path)) if not isinstance(path, int) else path, mode))
        self.events.append((fid, "open", mode))
        if self.ctx is not None:
            self.ctx.ev("file-open", os.path.basename(os.fspath(path)), mode)
        return TracedFile(self, real, os.fspath(path), mode, fid)

    def event(self, fid, kind, arg):
        self.events.append((fid, kind, arg))
        if self.ctx is not None:
            self.ctx.steps += 1
            self.ctx.ev("file", fid, kind, arg if kind != "write" else (len(arg), arg[:40]))

    def install(self):
        import gaddlemaps.parsers as P
        import gaddlemaps.parsers._itp_parse as I
        for mod in (P, I):
            if "open" in mod.__dict__:
                raise HarnessError("file seam already installed in " + mod.__name__)
            setattr(mod, "open", self.open)
            self._installed.append(mod)
        return self

    def uninstall(self):
        for mod in self._installed:
            try:
                delattr(mod, "open")
            except AttributeError:
                pass
        self._installed = []

    def __enter__(self):
        return self.install()

    def __exit__(self, *a):
        self.uninstall()

    # -- queries ------------------------------------------------------------
    def opened_for_write(self, path) -> bool:
        path = os.path.realpath(path)
        return any(os.path.realpath(p) == path and ("w" in m or "a" in m or "+" in m) for p, m in self.files)

    def fid_of(self, path, mode_contains="w"):
        path = os.path.realpath(path)
        ids = [i for i, (p, m) in enumerate(self.files) if os.path.realpath(p) == path and mode_contains in m]
        return ids[-1] if ids else None

    def ops_of(self, fid):
        """The write-side operations of one file, in order (open excluded)."""
        return [(k, a) for f, k, a in self.events if f == fid and k in ("write", "seek", "close", "flush", "truncate")]


def image_after(ops, n_ops: int, torn_bytes: int | None = None) -> bytes:
    """Disk image of a file opened with 'w' after the first n_ops operations of `ops`
    (list of (kind, arg)); if torn_bytes is given, operation n_ops (a write) contributes
    only that many leading bytes."""
    buf = bytearray()
    pos = 0

    def do_write(data: bytes):
        nonlocal pos
        if pos > len(buf):
            buf.extend(b"\0" * (pos - len(buf)))
        buf[pos:pos + len(data)] = data
        pos += len(data)

    for kind, arg in ops[:n_ops]:
        if kind == "write":
            do_write(arg.encode("utf-8"))
        elif kind == "seek":
            pos = arg
        elif kind == "truncate":
            if arg < len(buf):
                del buf[arg:]
            else:
                buf.extend(b"\0" * (arg - len(buf)))
    if torn_bytes is not None and n_ops < len(ops):
        kind, arg = ops[n_ops]
        if kind != "write":
            raise HarnessError("torn write requested on a non-write operation")
        do_write(arg.encode("utf-8")[:torn_bytes])
    return bytes(buf)


# --------------------------------------------------------------------------
# random seam
# --------------------------------------------------------------------------

class ExtraDraw(Exception):
    """Raised inside the seam when the library asks for a draw the reference model forbids."""


class RandomSeam:
    """Owns numpy's global random functions for the duration of a run.

    `script` (part of the trace) maps a site class to an override policy, see engines/mc.py.
    Logging never draws from a PRNG and never reads a clock."""

    FUNCS = ("rand", "uniform", "normal", "choice", "randint", "random", "random_sample")

    def __init__(self, ctx, np_seed: int, script: dict | None = None, listener=None, log=True):
        self.ctx = ctx
        self.np_seed = int(np_seed)
        self.script = script or {}
        self.listener = listener      # callable(site, func, args, value) -> None, may raise
        self.overrider = None         # callable(site, func, args, kwargs, draw) -> value or NotImplemented
        self._orig = {}
        self.n_draws = 0
        self.n_overridden = 0
        self.log = log
        self._state_before = None

    def install(self):
        self._state_before = np.random.get_state()
        np.random.seed(self.np_seed)
        for f in self.FUNCS:
            self._orig[f] = getattr(np.random, f)
            setattr(np.random, f, self._make(f))
        return self

    def uninstall(self):
        for f, o in self._orig.items():
            setattr(np.random, f, o)
        self._orig = {}
        if self._state_before is not None:
            np.random.set_state(self._state_before)

    def __enter__(self):
        return self.install()

    def __exit__(self, *a):
        self.uninstall()

    def _make(self, fname):
        orig = self._orig[fname]
        seam = self

        def wrapper(*args, **kwargs):
            fr = sys._getframe(1)
            site = fr.f_code.co_name
            value = NotImplemented
            if seam.overrider is not None:
                value = seam.overrider(site, fname, args, kwargs, lambda: orig(*args, **kwargs))
            if value is NotImplemented:
                value = orig(*args, **kwargs)
            else:
                seam.n_overridden += 1
            seam.n_draws += 1
            if seam.log:
                seam.ctx.ev("rnd", site, fname, value)
            if seam.listener is not None:
                seam.listener(site, fname, args, value)
            return value
        wrapper.__name__ = fname
        return wrapper
