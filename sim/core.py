"""Core of the deterministic simulation harness.

One integer (VERIF_SEED) decides every run: run k of engine E draws every choice
from random.Random(sha256(f"{seed}/{E}/{k}")).  An engine is two functions,
generate(rng, tier, focus) -> trace (JSON-serialisable, a complete replay file) and
execute(trace, ctx) which performs the operations against the real library, checks
the oracles and records events / counters / violations in ctx.

Outcomes: OK, VIOLATION (exit 1), KNOWN-FINDING (listed in known_findings.json,
exit 0), HARNESS-ERROR (exit 2; never a violation, never success).
"""
from __future__ import annotations

import atexit
import contextlib
import faulthandler
import hashlib
import io
import json
import multiprocessing
import os
import random
import shutil
import sys
import tempfile
import time
import traceback
import warnings
from collections import Counter
from concurrent.futures import ProcessPoolExecutor, as_completed

VERIF_DIR = os.path.dirname(os.path.dirname(os.path.abspath(__file__)))
REPO = os.path.realpath(os.environ.get("VERIF_REPO", "/repo"))


class HarnessError(Exception):
    """A fault of the simulator itself (never reported as a violation)."""


class Abort(Exception):
    """Raised by ctx.violate(..., abort=True) to stop a run after a violation."""


# --------------------------------------------------------------------------
# seeds
# --------------------------------------------------------------------------

def derive_rng(seed: int, engine: str, k: int) -> random.Random:
    h = hashlib.sha256(f"{seed}/{engine}/{k}".encode()).digest()
    return random.Random(int.from_bytes(h[:8], "big"))


# --------------------------------------------------------------------------
# scratch space
# --------------------------------------------------------------------------

_SCRATCH_ROOT = None


def scratch_root() -> str:
    global _SCRATCH_ROOT
    if _SCRATCH_ROOT is None or not os.path.isdir(_SCRATCH_ROOT):
        base = "/dev/shm" if os.path.isdir("/dev/shm") and os.access("/dev/shm", os.W_OK) else tempfile.gettempdir()
        _SCRATCH_ROOT = tempfile.mkdtemp(prefix=f"verif-{os.getpid()}-", dir=base)
        atexit.register(shutil.rmtree, _SCRATCH_ROOT, True)
    return _SCRATCH_ROOT


# --------------------------------------------------------------------------
# run context
# --------------------------------------------------------------------------

def _canon(x):
    """Canonical, hash-seed independent rendering for the event log."""
    import numpy as np
    if isinstance(x, np.ndarray):
        return ("nd", x.shape, x.dtype.str, hashlib.sha1(np.ascontiguousarray(x).tobytes()).hexdigest()[:16])
    if isinstance(x, (np.floating,)):
        return float(x).hex()
    if isinstance(x, (np.integer,)):
        return int(x)
    if isinstance(x, (np.bool_,)):
        return bool(x)
    if isinstance(x, float):
        return x.hex()
    if isinstance(x, (list, tuple)):
        return tuple(_canon(i) for i in x)
    if isinstance(x, dict):
        return tuple(sorted((str(k), _canon(v)) for k, v in x.items()))
    if isinstance(x, (set, frozenset)):
        return tuple(sorted(_canon(i) for i in x))
    return x


class Ctx:
    def __init__(self, engine: str, focus: str, trace: dict):
        self.engine = engine
        self.focus = focus
        self.trace = trace
        self._h = hashlib.sha256()
        self.n_events = 0
        self.counters: Counter = Counter()
        self.faults: Counter = Counter()
        self.probes: Counter = Counter()
        self.violations: list = []
        self.sig: list = []          # behaviour signature: (op kind, outcome class)
        self.steps = 0               # simulated steps (MC iterations, file ops, API ops)
        self._tmp = None
        self.op_index = -1
        self.nontrivial = False
        self.stdout = io.StringIO()

    # event log (never draws from a PRNG, never reads a clock)
    def ev(self, *items):
        self._h.update(repr(_canon(items)).encode())
        self._h.update(b"\n")
        self.n_events += 1

    def op(self, kind: str, outcome: str = "ok"):
        self.sig.append((kind, outcome))
        self.counters["op:" + kind] += 1
        self.ev("op", kind, outcome)

    def fault(self, kind: str, n: int = 1):
        self.faults[kind] += n

    def probe(self, name: str, n: int = 1):
        self.probes[name] += n

    def violate(self, prop: str, clause: str, msg: str, key: str = "", abort: bool = False):
        # capped per property: monitors of OTHER properties (an mc run carries four) must not crowd out the focus
        if sum(1 for v in self.violations if v["property"] == prop) < 20:
            self.violations.append({"property": prop, "clause": clause, "msg": str(msg)[:600],
                                    "op": self.op_index, "key": key})
        self.ev("violation", prop, clause)
        if abort:
            raise Abort()

    def tmpdir(self) -> str:
        """Scratch directory of this run.  Its PATH is a function of the trace alone (paths end up in strings the
        library hashes, e.g. in sets of file names): a replay must see the same path as the run that failed."""
        if self._tmp is None:
            key = hashlib.sha1(json.dumps(self.trace, sort_keys=True, default=str).encode()).hexdigest()[:20]
            base = "/dev/shm" if os.path.isdir("/dev/shm") and os.access("/dev/shm", os.W_OK) else tempfile.gettempdir()
            root = os.path.join(base, "verif-sim")
            os.makedirs(root, exist_ok=True)
            path = os.path.join(root, key)
            t0 = time.time()
            while True:
                try:
                    os.mkdir(path)
                    break
                except FileExistsError:
                    # another process is executing the very same trace (parallel self-tests): wait for it; a stale
                    # directory (killed process) is taken over after a while
                    if time.time() - t0 > 30:
                        try:
                            if time.time() - os.path.getmtime(path) > 120:
                                shutil.rmtree(path, ignore_errors=True)
                                continue
                        except OSError:
                            continue
                        if time.time() - t0 > 300:
                            raise HarnessError("scratch directory %s stays busy" % path)
                    time.sleep(0.02)
            self._tmp = path
        return self._tmp

    def cleanup(self):
        if self._tmp is not None:
            shutil.rmtree(self._tmp, ignore_errors=True)
            self._tmp = None

    def digest(self) -> str:
        return self._h.hexdigest()


def _has_repo_frame(tb) -> bool:
    for fs in traceback.extract_tb(tb):
        fn = os.path.realpath(fs.filename)
        if fn.startswith(REPO + os.sep):
            return True
    return False


def run_trace(engine, trace: dict, focus: str) -> dict:
    """Execute one trace; returns a plain-dict result (picklable, JSON-able)."""
    import numpy as np
    ctx = Ctx(engine.NAME, focus, trace)
    harness_error = None
    t0 = time.perf_counter()
    old_stdout = sys.stdout
    try:
        sys.stdout = ctx.stdout
        with warnings.catch_warnings(), np.errstate(all="ignore"):
            warnings.simplefilter("ignore")
            try:
                engine.execute(trace, ctx)
            except Abort:
                pass
            except HarnessError as e:
                harness_error = "HarnessError: " + str(e)
            except RecursionError as e:
                # can only originate in library code reached by the engine
                ctx.violate(focus, "unexpected-exception", "RecursionError: " + str(e), key="RecursionError")
            except Exception as e:  # noqa
                tb = sys.exc_info()[2]
                text = "".join(traceback.format_exception(type(e), e, tb))[-1500:]
                if _has_repo_frame(tb):
                    ctx.violate(focus, "unexpected-exception", f"{type(e).__name__}: {e}\n{text}",
                                key=type(e).__name__)
                else:
                    harness_error = text
    finally:
        sys.stdout = old_stdout
        ctx.cleanup()
    sig = hashlib.sha1(repr(ctx.sig).encode()).hexdigest()[:16]
    return {
        "digest": ctx.digest(), "n_events": ctx.n_events,
        "counters": dict(ctx.counters), "faults": dict(ctx.faults), "probes": dict(ctx.probes),
        "violations": ctx.violations, "sig": sig, "nontrivial": bool(ctx.nontrivial),
        "steps": ctx.steps, "harness_error": harness_error,
        "wall": time.perf_counter() - t0,
    }


# --------------------------------------------------------------------------
# workers
# --------------------------------------------------------------------------

_ENGINE = None


def run_isolated(fn, args, timeout=None):
    """Run fn(*args) in a freshly forked child and return ("ok", result) or ("err", text).

    The child starts from the caller's state, which -- for pool workers and for the parent of a check -- has imported
    the library but never executed any of it: whatever a run leaves behind in module globals, class attributes or caches
    of the code under test dies with the child and cannot reach another block (or the shrinker, or the next check)."""
    mp = multiprocessing.get_context("fork")
    r, w = mp.Pipe(duplex=False)

    def target(conn):
        try:
            conn.send(("ok", fn(*args)))
        except BaseException:  # noqa
            try:
                conn.send(("err", traceback.format_exc()[-1500:]))
            except Exception:
                pass
        finally:
            conn.close()
            os._exit(0)
    p = mp.Process(target=target, args=(w,))
    p.start()
    w.close()
    try:
        if r.poll(timeout):
            status, out = r.recv()
        else:
            status, out = "err", f"no result within {timeout} s"
    except (EOFError, OSError) as e:
        status, out = "err", f"child process died without a result ({e!r})"
    finally:
        r.close()
    p.join(2)
    if p.is_alive():
        p.kill()
        p.join(2)
    return status, out


def _worker_block(args):
    """Pool worker entry: the block runs in a forked child of this (clean) worker process."""
    ks = args[4]
    status, out = run_isolated(_block_body, (args,), timeout=1500)
    if status == "ok":
        return out
    return [{"k": ks[0], "harness_error": f"block {ks[0]}..{ks[-1]} did not complete: {out}", "violations": [], "counters": {},
             "faults": {}, "probes": {}, "sig": "", "nontrivial": False, "steps": 0, "digest": "", "n_events": 0, "wall": 0.0}]


def _block_body(args):
    engine_name, seed, tier, focus, ks, double = args
    from engines import get_engine
    engine = get_engine(engine_name)
    faulthandler.dump_traceback_later(1200, exit=True)
    out = []
    try:
        for k in ks:
            rng = derive_rng(seed, engine_name, k)
            try:
                if getattr(engine, "USES_INDEX", False):
                    trace = engine.generate(rng, tier, focus, k)
                else:
                    trace = engine.generate(rng, tier, focus)
            except Exception:
                out.append({"k": k, "harness_error": "generate: " + traceback.format_exc()[-1500:],
                            "violations": [], "counters": {}, "faults": {}, "probes": {}, "sig": "", "nontrivial": False,
                            "steps": 0, "digest": "", "n_events": 0, "wall": 0.0})
                continue
            res = run_trace(engine, trace, focus)
            res["k"] = k
            if k in double and not res["harness_error"]:
                res2 = run_trace(engine, trace, focus)
                if res2["digest"] != res["digest"]:
                    mine = [v for v in res["violations"] + res2["violations"] if v["property"] == focus]
                    if mine:
                        # a run that violates the property may legitimately differ between executions (e.g. an
                        # order-dependent discovery): report the violation, not the harness
                        if not any(v["property"] == focus for v in res["violations"]):
                            res["violations"] = res2["violations"]
                    elif getattr(engine, "NONDETERMINISM_IS_VIOLATION", None) and focus in engine.NONDETERMINISM_IS_VIOLATION:
                        res["violations"].append({"property": focus, "clause": "nondeterministic-repeat",
                                                  "msg": "two executions of one trace gave different event digests",
                                                  "op": -1, "key": ""})
                    else:
                        res["harness_error"] = "determinism self-check: digests differ for run %d" % k
            if res["violations"] or res["harness_error"]:
                res["trace"] = trace
            elif k < 3:
                res["sample"] = engine.abbreviate(trace) if hasattr(engine, "abbreviate") else trace
            out.append(res)
    finally:
        faulthandler.cancel_dump_traceback_later()
    return out


def explore(engine_name: str, focus: str, tier: str, seed: int, n_runs: int, budget_s: float,
            workers: int, block: int = 8, n_double: int = 16):
    """Run n_runs seeded runs (indices 0..n_runs-1) over a process pool.

    Returns (results sorted by k, timed_out flag)."""
    ks_all = list(range(n_runs))
    blocks = [ks_all[i:i + block] for i in range(0, n_runs, block)]
    double = set(range(min(n_double, n_runs)))
    results = []
    t0 = time.time()
    truncated = False
    ctxmp = multiprocessing.get_context("fork")
    with ProcessPoolExecutor(max_workers=workers, mp_context=ctxmp) as ex:
        pending = {}
        nxt = 0

        def submit_next():
            nonlocal nxt
            if nxt >= len(blocks):
                return False
            b = blocks[nxt]
            try:
                f = ex.submit(_worker_block, (engine_name, seed, tier, focus, b, double))
            except Exception as e:       # the pool is broken (a worker was killed): stop dispatching, keep what we have
                results.append({"k": b[0], "harness_error": f"cannot dispatch block {b[0]}..{b[-1]}: {e!r}",
                                "violations": [], "counters": {}, "faults": {}, "probes": {}, "sig": "",
                                "nontrivial": False, "steps": 0, "digest": "", "n_events": 0, "wall": 0.0})
                nxt = len(blocks)
                return False
            nxt += 1
            pending[f] = b
            return True
        # keep the queue short so that a wall-clock cap stops dispatching promptly
        for _ in range(workers * 2):
            if not submit_next():
                break
        while pending:
            done = next(as_completed(list(pending)))
            b = pending.pop(done)
            try:
                results.extend(done.result())
            except Exception as e:  # worker died / timed out
                results.append({"k": b[0], "harness_error": f"worker failure on block {b[0]}..{b[-1]}: {e!r}",
                                "violations": [], "counters": {}, "faults": {}, "probes": {}, "sig": "",
                                "nontrivial": False, "steps": 0, "digest": "", "n_events": 0, "wall": 0.0})
            if time.time() - t0 < budget_s:
                submit_next()
        truncated = nxt < len(blocks)
    results.sort(key=lambda r: r["k"])
    return results, truncated


def generate_trace(engine, seed, tier, focus, k):
    rng = derive_rng(seed, engine.NAME, k)
    if getattr(engine, "USES_INDEX", False):
        return engine.generate(rng, tier, focus, k)
    return engine.generate(rng, tier, focus)


def run_sequence(engine_name, prefix, trace, focus, repeat=1):
    """Execute the prefix traces (results discarded) and then `trace` (repeat times) in THIS process; returns the list of
    results of the executions of `trace`.  Used for violations that need state left behind by earlier runs."""
    from engines import get_engine
    engine = get_engine(engine_name)
    for t in prefix:
        run_trace(engine, t, focus)
    return [run_trace(engine, trace, focus) for _ in range(repeat)]


def sequence_fails(engine_name, prefix, trace, focus, target, repeat=1):
    status, out = run_isolated(run_sequence, (engine_name, prefix, trace, focus, repeat), timeout=600)
    if status != "ok":
        return False
    return any((v["property"], v["clause"]) == target for r in out if not r["harness_error"] for v in r["violations"])


def shrink_prefix(engine_name, prefix, trace, focus, target, repeat=1, max_s=90.0):
    """ddmin over the list of earlier runs a violation needs."""
    t0 = time.time()
    best = list(prefix)
    chunk = max(1, len(best) // 2)
    tried = 0
    while chunk >= 1 and best and time.time() - t0 < max_s:
        i = 0
        changed = False
        while i < len(best) and time.time() - t0 < max_s:
            cand = best[:i] + best[i + chunk:]
            tried += 1
            if sequence_fails(engine_name, cand, trace, focus, target, repeat):
                best, changed = cand, True
            else:
                i += chunk
        if not changed:
            chunk //= 2
    return best, tried


# --------------------------------------------------------------------------
# known findings
# --------------------------------------------------------------------------

def load_known():
    path = os.path.join(VERIF_DIR, "known_findings.json")
    if not os.path.exists(path):
        return {"known": [], "fixed": []}
    with open(path) as f:
        return json.load(f)


def is_known(v: dict, known: dict):
    for entry in known.get("known", []):
        if entry["property"] == v["property"] and entry["clause"] == v["clause"] and \
                (entry.get("key", "") == v.get("key", "")):
            return entry
    return None


# --------------------------------------------------------------------------
# shrinking (delta debugging on the trace)
# --------------------------------------------------------------------------

def shrink(engine, trace: dict, focus: str, target: tuple, max_s: float = 60.0):
    """Minimise a failing trace while it still violates (property, clause) == target."""
    t0 = time.time()

    def fails(tr) -> bool:
        try:
            r = run_trace(engine, tr, focus)
        except Exception:
            return False
        if r["harness_error"]:
            return False
        return any((v["property"], v["clause"]) == target for v in r["violations"])

    best = trace
    n_tried = 0
    # 1. operation list (ddmin)
    if isinstance(best.get("ops"), list) and getattr(engine, "OPS_REMOVABLE", True):
        ops = best["ops"]
        chunk = max(1, len(ops) // 2)
        while chunk >= 1 and time.time() - t0 < max_s:
            i = 0
            changed = False
            while i < len(ops) and time.time() - t0 < max_s:
                cand_ops = ops[:i] + ops[i + chunk:]
                cand = dict(best)
                cand["ops"] = cand_ops
                n_tried += 1
                if len(cand_ops) < len(ops) and fails(cand):
                    best, ops, changed = cand, cand_ops, True
                else:
                    i += chunk
            if not changed:
                chunk //= 2
    # 2. engine specific simplifications
    if hasattr(engine, "simplify"):
        progress = True
        while progress and time.time() - t0 < max_s:
            progress = False
            for cand in engine.simplify(best):
                if time.time() - t0 >= max_s:
                    break
                n_tried += 1
                if fails(cand):
                    best = cand
                    progress = True
                    break
    return best, n_tried


# --------------------------------------------------------------------------
# replay
# --------------------------------------------------------------------------

def write_replay(prop: str, seed: int, k: int, engine_name: str, focus: str, minimised: dict,
                 original: dict, violation: dict, prefix=None, repeat=1) -> str:
    d = os.environ.get("VERIF_REPLAY_DIR") or os.path.join(VERIF_DIR, "replays")
    os.makedirs(d, exist_ok=True)
    path = os.path.join(d, f"{prop}-s{seed}-r{k}.json")
    with open(path, "w") as f:
        rep = {"property": prop, "engine": engine_name, "focus": focus, "seed": seed, "run": k,
               "violation": violation, "trace": minimised, "unminimised_trace": original}
        if prefix is not None:
            # runs that must be executed first, in this order, in the same process: the violation needs what they leave
            # behind in the code under test (module-level state)
            rep["prefix"] = prefix
            rep["repeat"] = repeat
        json.dump(rep, f)
    return path


def replay_in_fresh_process(path: str):
    """Re-execute a replay file in a fresh interpreter; returns (exit code, stdout)."""
    import subprocess
    env = dict(os.environ)
    p = subprocess.run([sys.executable, os.path.join(VERIF_DIR, "check.py"), "--replay", path],
                       capture_output=True, text=True, env=env, timeout=600)
    return p.returncode, p.stdout + p.stderr
