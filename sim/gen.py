"""Generators shared by the engines: geometry, bond graphs, molecules, file text.

Every function takes the run's private random.Random; nothing here touches the global
numpy / random streams (those belong to the random seam)."""
from __future__ import annotations

import math
import random

import numpy as np


# --------------------------------------------------------------------------
# small helpers
# --------------------------------------------------------------------------

def rvec(rng: random.Random, scale: float = 1.0):
    return [rng.uniform(-scale, scale) for _ in range(3)]


def gauss_vec(rng, sigma=1.0):
    return [rng.gauss(0, sigma) for _ in range(3)]


def unit_vec(rng):
    while True:
        v = np.array(gauss_vec(rng))
        n = np.linalg.norm(v)
        if n > 1e-3:
            return v / n


def random_rotation(rng) -> np.ndarray:
    """Proper rotation, uniform on SO(3) (unit quaternion), with special cases."""
    c = rng.random()
    if c < 0.05:
        return np.eye(3)
    if c < 0.12:  # pi about a coordinate axis / random axis
        ax = [np.array([1.0, 0, 0]), np.array([0, 1.0, 0]), np.array([0, 0, 1.0]), unit_vec(rng)][rng.randrange(4)]
        return 2 * np.outer(ax, ax) - np.eye(3)
    if c < 0.18:  # tiny angle
        return rot_axis_angle(unit_vec(rng), rng.uniform(-1e-6, 1e-6))
    if c < 0.24:  # quarter turns about coordinate axes
        ax = np.eye(3)[rng.randrange(3)]
        return rot_axis_angle(ax, rng.choice([0.5, 1.0, 1.5]) * math.pi)
    q = np.array([rng.gauss(0, 1) for _ in range(4)])
    q /= np.linalg.norm(q)
    w, x, y, z = q
    return np.array([
        [1 - 2 * (y * y + z * z), 2 * (x * y - z * w), 2 * (x * z + y * w)],
        [2 * (x * y + z * w), 1 - 2 * (x * x + z * z), 2 * (y * z - x * w)],
        [2 * (x * z - y * w), 2 * (y * z + x * w), 1 - 2 * (x * x + y * y)]])


def rot_axis_angle(axis, theta) -> np.ndarray:
    """Independent Rodrigues formula (column-vector convention: v' = R v)."""
    a = np.asarray(axis, dtype=float)
    a = a / np.linalg.norm(a)
    K = np.array([[0, -a[2], a[1]], [a[2], 0, -a[0]], [-a[1], a[0], 0]])
    return np.eye(3) + math.sin(theta) * K + (1 - math.cos(theta)) * (K @ K)


# --------------------------------------------------------------------------
# bond graphs
# --------------------------------------------------------------------------

def random_tree(rng, n: int, style: str | None = None):
    """Edges of a random labelled tree on 0..n-1 (list of (i, j), i<j not guaranteed)."""
    if n <= 1:
        return []
    style = style or rng.choice(["uniform", "chain", "star", "caterpillar", "prufer"])
    if style == "chain":
        return [(i, i + 1) for i in range(n - 1)]
    if style == "star":
        c = rng.randrange(n)
        return [(c, i) for i in range(n) if i != c]
    if style == "prufer" and n >= 3:
        return prufer_to_edges([rng.randrange(n) for _ in range(n - 2)])
    if style == "caterpillar":
        spine = max(1, n // 2)
        edges = [(i, i + 1) for i in range(spine - 1)]
        for i in range(spine, n):
            edges.append((rng.randrange(spine), i))
        return edges
    # uniform attachment in random label order
    order = list(range(n))
    rng.shuffle(order)
    edges = []
    for idx in range(1, n):
        edges.append((order[rng.randrange(idx)], order[idx]))
    return edges


def prufer_to_edges(seq):
    n = len(seq) + 2
    degree = [1] * n
    for s in seq:
        degree[s] += 1
    edges = []
    import heapq
    leaves = [i for i in range(n) if degree[i] == 1]
    heapq.heapify(leaves)
    for s in seq:
        leaf = heapq.heappop(leaves)
        edges.append((leaf, s))
        degree[s] -= 1
        if degree[s] == 1:
            heapq.heappush(leaves, s)
    u = heapq.heappop(leaves)
    v = heapq.heappop(leaves)
    edges.append((u, v))
    return edges


def add_cycles(rng, n, edges, extra):
    es = {tuple(sorted(e)) for e in edges}
    tries = 0
    out = list(edges)
    while extra > 0 and tries < 50 and n >= 3:
        tries += 1
        i, j = rng.randrange(n), rng.randrange(n)
        if i == j or tuple(sorted((i, j))) in es:
            continue
        es.add(tuple(sorted((i, j))))
        out.append((i, j))
        extra -= 1
    return out


def adjacency(n, edges):
    adj = [set() for _ in range(n)]
    for i, j in edges:
        adj[i].add(j)
        adj[j].add(i)
    return adj


def is_connected(n, edges):
    if n == 0:
        return True
    parent = list(range(n))

    def find(x):
        while parent[x] != x:
            parent[x] = parent[parent[x]]
            x = parent[x]
        return x
    for i, j in edges:
        parent[find(i)] = find(j)
    r = find(0)
    return all(find(i) == r for i in range(n))


# --------------------------------------------------------------------------
# library object builders (no file round trip)
# --------------------------------------------------------------------------

def make_moltop(name: str, atom_names, resnames, resids, edges):
    """Build a MoleculeTop without a file, the way MoleculeTop.copy does."""
    from gaddlemaps.components import MoleculeTop, AtomTop
    mt = MoleculeTop.__new__(MoleculeTop)
    mt.ftop = f"<generated {name}>"
    mt.name = name
    mt.atoms = [AtomTop(an, rn, int(ri), idx) for idx, (an, rn, ri) in enumerate(zip(atom_names, resnames, resids))]
    for i, j in edges:
        mt.atoms[i].connect(mt.atoms[j])
    return mt


def make_residues(atom_names, resnames, resids, positions, velocities=None, atomid0=1, gro_resids=None):
    """List of Residue objects, split where (resid, resname) changes."""
    from gaddlemaps.components import AtomGro, Residue
    residues = []
    cur = []
    prev = None
    gro_resids = gro_resids if gro_resids is not None else resids
    for idx, (an, rn, ri) in enumerate(zip(atom_names, resnames, gro_resids)):
        line = [int(ri), rn, an, atomid0 + idx] + [float(x) for x in positions[idx]]
        if velocities is not None:
            line += [float(x) for x in velocities[idx]]
        key = (resids[idx], rn)
        if prev is not None and key != prev:
            residues.append(Residue(cur))
            cur = []
        cur.append(AtomGro(line))
        prev = key
    residues.append(Residue(cur))
    return residues


def make_molecule(spec: dict, positions=None, velocities=None, gro_resids=None, moltop=None):
    """spec: {name, atom_names, resnames, resids, edges, positions[, velocities]}."""
    from gaddlemaps.components import Molecule
    mt = moltop if moltop is not None else make_moltop(spec["name"], spec["atom_names"], spec["resnames"],
                                                        spec["resids"], spec["edges"])
    pos = positions if positions is not None else spec["positions"]
    vel = velocities if velocities is not None else spec.get("velocities")
    res = make_residues(spec["atom_names"], spec["resnames"], spec["resids"], pos, vel, gro_resids=gro_resids)
    return Molecule(mt, res)


ELEMENTS = ["C", "N", "O", "S", "P", "B", "F"]


def atom_name(rng, idx, hydrogen=False):
    if hydrogen:
        return "H" + str(idx % 100)
    return rng.choice(ELEMENTS) + str(idx % 1000)


def mol_spec(rng, name, n, *, n_res=1, tree_style=None, cyclic=0, p_hydrogen=0.0, resname=None,
             positions=None, spread=0.15, velocities=False):
    """Random molecule description with generic coordinates grown along the bond graph."""
    edges = random_tree(rng, n, tree_style)
    if cyclic:
        edges = add_cycles(rng, n, edges, cyclic)
    names = []
    n_heavy = 0
    for i in range(n):
        h = rng.random() < p_hydrogen
        if not h:
            n_heavy += 1
        names.append(atom_name(rng, i, h))
    if n_heavy == 0:
        names[rng.randrange(n)] = "C" + str(n)
    # residues: contiguous blocks
    n_res = max(1, min(n_res, n))
    cuts = sorted(rng.sample(range(1, n), n_res - 1)) if n_res > 1 else []
    resnames, resids = [], []
    r = 0
    base = resname or (name[:4].upper())
    for i in range(n):
        if r < len(cuts) and i == cuts[r]:
            r += 1
        resnames.append(base if n_res == 1 else (base[:3] + chr(65 + r % 26)))
        resids.append(r + 1)
    if positions is None:
        positions = grow_positions(rng, n, edges, spread)
    spec = {"name": name, "atom_names": names, "resnames": resnames, "resids": resids,
            "edges": [list(e) for e in edges], "positions": [list(map(float, p)) for p in positions]}
    if velocities:
        spec["velocities"] = [rvec(rng, 2.0) for _ in range(n)]
    return spec


def grow_positions(rng, n, edges, bond=0.15, min_dist=0.03):
    """Coordinates such that bonded atoms are ~bond apart and all atoms are well separated."""
    adj = adjacency(n, edges)
    pos = [None] * n
    order = []
    seen = set()
    for root in range(n):
        if root in seen:
            continue
        stack = [(root, None)]
        while stack:
            v, p = stack.pop()
            if v in seen:
                continue
            seen.add(v)
            order.append((v, p))
            for w in sorted(adj[v]):
                if w not in seen:
                    stack.append((w, v))
    placed = []
    for v, p in order:
        for _ in range(200):
            if p is None:
                cand = np.array(rvec(rng, 0.3 + 0.05 * n))
            else:
                cand = pos[p] + unit_vec(rng) * bond * rng.uniform(0.7, 1.4)
            if all(np.linalg.norm(cand - q) >= min_dist for q in placed):
                break
        pos[v] = cand
        placed.append(cand)
    return [list(map(float, p)) for p in pos]


# --------------------------------------------------------------------------
# file text for species / systems (used by the system, pipeline, cli and alias engines)
# --------------------------------------------------------------------------

HEADER_STYLES = ["[ %s ]", "[%s]", "[\t%s\t]", "  [ %s ]", "\t[ %s ]  ", "[  %s  ]"]


def itp_text(spec, comments=True, style=0):
    """Plain .itp text for a molecule spec (atoms numbered 1..n, all bonds in [ bonds ]).
    style: which legal spelling of the section headers is used (blanks / tabs inside and around the brackets)."""
    text = _itp_text(spec, comments)
    if style:
        h = HEADER_STYLES[style % len(HEADER_STYLES)]
        for name in ("moleculetype", "atoms", "bonds"):
            text = text.replace("[ %s ]" % name, h % name)
    return text


def _itp_text(spec, comments=True):
    out = []
    if comments:
        out.append("; generated topology for %s" % spec["name"])
    out += ["[ moleculetype ]", "; Name nrexcl", "%s 1" % spec["name"], "", "[ atoms ]"]
    if comments:
        out.append(";   nr  type  resnr residue  atom   cgnr     charge       mass")
    for i, (an, rn, ri) in enumerate(zip(spec["atom_names"], spec["resnames"], spec["resids"])):
        out.append("%6d %6s %5d %6s %6s %5d %8.4f %8.4f" % (i + 1, "T" + an[:3], ri, rn, an, i + 1, 0.0, 12.011))
    out.append("")
    if spec["edges"]:
        out.append("[ bonds ]")
        for i, j in spec["edges"]:
            out.append("%5d %5d 1 0.15 1000.0" % (i + 1, j + 1))
        out.append("")
    return "\n".join(out) + "\n"


def gro_atom_lines(spec, positions, first_resid, first_atomid, velocities=None, resid_list=None):
    """Fixed-width atom lines of one molecule instance; residue numbers first_resid, first_resid+1, ... per residue (or the
    numbers of `resid_list`, one per residue: numbering with gaps)."""
    lines = []
    r = -1
    prev = None
    for i, (an, rn, ri) in enumerate(zip(spec["atom_names"], spec["resnames"], spec["resids"])):
        if (rn, ri) != prev:
            r += 1
            prev = (rn, ri)
        l = "%5d%-5s%5s%5d%8.3f%8.3f%8.3f" % ((first_resid + r if resid_list is None else resid_list[r]) % 100000, rn, an,
                                             (first_atomid + i) % 100000,
                                             positions[i][0], positions[i][1], positions[i][2])
        if velocities is not None:
            l += "%8.4f%8.4f%8.4f" % tuple(velocities[i])
        lines.append(l)
    return lines, r + 1


def gro_text(title, atom_lines, box):
    b = list(box)
    return title + "\n" + "%5d\n" % len(atom_lines) + "\n".join(atom_lines) + ("\n" if atom_lines else "") + \
        " ".join("%10.5f" % x for x in b) + "\n"


def round3(pos):
    return [[round(float(x), 3) for x in p] for p in pos]
