"""Small executable reference models used as oracles (independent of the library code)."""
from __future__ import annotations

import math

import numpy as np


# --------------------------------------------------------------------------
# exchange map
# --------------------------------------------------------------------------

class XMapModel:
    """Reference model of an exchange map for references of >= 3 atoms.

    anchors = atoms with >= 2 bonds; frame of an anchor = (unit(p2-p0), e3 x e1, unit(e1 x (p1-p0)))
    with p1, p2 its two lowest-numbered bonded atoms.  Only used where the frame is well defined
    (non-collinear anchors); for collinear anchors `local()` returns axis invariants instead."""

    def __init__(self, ref_pos, ref_edges, tgt_pos, scale):
        self.ref_pos = np.asarray(ref_pos, dtype=float)
        self.tgt_pos = np.asarray(tgt_pos, dtype=float)
        self.scale = float(scale)
        n = len(self.ref_pos)
        adj = [set() for _ in range(n)]
        for i, j in ref_edges:
            adj[i].add(j)
            adj[j].add(i)
        self.adj = adj
        self.anchors = [i for i in range(n) if len(adj[i]) >= 2]
        self.neigh = {a: sorted(adj[a])[:2] for a in self.anchors}

    def tied_anchors(self, t, tol=1e-12):
        d = [(float(np.linalg.norm(self.tgt_pos[t] - self.ref_pos[a])), a) for a in self.anchors]
        dmin = min(d)[0]
        return [a for dist, a in d if dist <= dmin + tol]

    @staticmethod
    def sin_angle(p0, p1, p2):
        v1 = p2 - p0
        v2 = p1 - p0
        n1, n2 = np.linalg.norm(v1), np.linalg.norm(v2)
        if n1 == 0 or n2 == 0:
            return 0.0
        return float(np.linalg.norm(np.cross(v1 / n1, v2 / n2)))

    def anchor_sin(self, a, pos=None):
        pos = self.ref_pos if pos is None else pos
        n1, n2 = self.neigh[a]
        return self.sin_angle(pos[a], pos[n1], pos[n2])

    @staticmethod
    def frame(p0, p1, p2):
        e1 = (p2 - p0) / np.linalg.norm(p2 - p0)
        c = np.cross(e1, p1 - p0)
        e3 = c / np.linalg.norm(c)
        e2 = np.cross(e3, e1)
        return np.array([e1, e2, e3])

    def predict(self, assignment, new_pos):
        """Predicted mapped coordinates for a new reference conformation; assignment[t] = anchor.
        Entries are None where the anchor is collinear at construction or in new_pos."""
        new_pos = np.asarray(new_pos, dtype=float)
        out = []
        for t, a in enumerate(assignment):
            n1, n2 = self.neigh[a]
            if self.anchor_sin(a) < 1e-3 or self.anchor_sin(a, new_pos) < 1e-3:
                out.append(None)
                continue
            F0 = self.frame(self.ref_pos[a], self.ref_pos[n1], self.ref_pos[n2])
            c = self.scale * (F0 @ (self.tgt_pos[t] - self.ref_pos[a]))
            F1 = self.frame(new_pos[a], new_pos[n1], new_pos[n2])
            out.append(new_pos[a] + c @ F1)
        return out


def axis_invariants(x, p0, u):
    """(distance to p0, coordinate along unit axis u, distance from the axis)."""
    d = np.asarray(x) - np.asarray(p0)
    along = float(d @ u)
    radial = float(np.linalg.norm(d - along * u))
    return float(np.linalg.norm(d)), along, radial


# --------------------------------------------------------------------------
# chi2 (naive, written from the statement of C08)
# --------------------------------------------------------------------------

def naive_chi2(fixed, mobile, restraints):
    """fixed: (N,3) positions of the fixed molecule; mobile: (M,3); restraints: list of (i_fixed, j_mobile)."""
    fixed = np.asarray(fixed, dtype=float)
    mobile = np.asarray(mobile, dtype=float)
    total = 0.0
    restrained_fixed = set()
    used_mobile = set()
    for i, j in restraints:
        i, j = int(i), int(j)
        d = fixed[i] - mobile[j]
        total += float(d @ d)
        restrained_fixed.add(i)
        used_mobile.add(j)
    ambiguous = False
    for i in range(len(fixed)):
        if i in restrained_fixed:
            continue
        best = None
        bestj = None
        second = None
        for j in range(len(mobile)):
            d = fixed[i] - mobile[j]
            dd = float(d @ d)
            if best is None or dd < best:
                second = best
                best, bestj = dd, j
            elif second is None or dd < second:
                second = dd
        total += best
        used_mobile.add(bestj)
        if second is not None and abs(math.sqrt(second) - math.sqrt(best)) <= 1e-9 * max(1e-30, min(1.0, math.sqrt(second))):
            ambiguous = True
    k = len(mobile) - len(used_mobile)
    return total * (1.1 ** k), k, ambiguous


def fast_chi2(fixed, mobile, restraints):
    """Vectorised re-statement of naive_chi2 (numpy broadcasting; no cdist, no cached masks).
    Returns (value, k, ambiguous)."""
    fixed = np.asarray(fixed, dtype=float)
    mobile = np.asarray(mobile, dtype=float)
    total = 0.0
    nf, nm = len(fixed), len(mobile)
    free = np.ones(nf, dtype=bool)
    used = np.zeros(nm, dtype=bool)
    if len(restraints):
        r = np.asarray(restraints, dtype=int)
        d = fixed[r[:, 0]] - mobile[r[:, 1]]
        total += float(np.sum(d * d))
        free[r[:, 0]] = False
        used[r[:, 1]] = True
    ambiguous = False
    if free.any():
        diff = fixed[free][:, None, :] - mobile[None, :, :]
        d2 = np.einsum("ijk,ijk->ij", diff, diff)
        idx = np.argmin(d2, axis=1)
        best = d2[np.arange(len(idx)), idx]
        total += float(np.sum(best))
        used[idx] = True
        if nm > 1:
            part = np.partition(d2, 1, axis=1)
            if np.any(np.abs(np.sqrt(part[:, 1]) - np.sqrt(part[:, 0])) <= 1e-9 * np.maximum(1e-30, np.minimum(1.0, np.sqrt(part[:, 1])))):
                ambiguous = True
    k = int(nm - np.count_nonzero(used))
    return total * (1.1 ** k), k, ambiguous
