#!/bin/bash
# false-alarm sweep: every quick check under many VERIF_SEED values; prints only anomalies
cd "$(dirname "$0")/.."
for seed in $(seq ${1:-2} ${2:-21}); do
  for p in $(/venv/bin/python -c "import json;print(' '.join(c['property_id'] for c in json.load(open('MANIFEST.json'))['checks']))"); do
    out=$(VERIF_SEED=$seed VERIF_REPLAY_DIR=/dev/shm/sweep-replays /venv/bin/python check.py $p --tier quick --no-evidence 2>&1)
    rc=$?
    if [ $rc -ne 0 ]; then echo "seed=$seed $p rc=$rc"; echo "$out" | tail -15; fi
  done
  echo "seed $seed done"
done
