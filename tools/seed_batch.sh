#!/bin/bash
# seed_batch.sh <worktree-root> <name-prefix> <suffix> ID...  : evaluate seeded changes (3 at a time), print one line each
root=$1; prefix=$2; suffix=$3; shift 3
# an ID may carry a trailing letter (C04a, C04b: two seeds for one property)
printf "%s\n" "$@" | xargs -P 3 -I{} sh -c "/venv/bin/python /verif/tools/seed_eval.py $prefix-{} \$(echo {} | sed 's/[a-z]\$//') $root/{} > $root/eval${suffix}_{}.log 2>&1"
for c in "$@"; do
  /venv/bin/python - "$root/eval${suffix}_$c.log" "$c" <<'PY'
import sys, json, re
txt = open(sys.argv[1]).read()
try:
    m = json.loads(txt[txt.index("{"):])
    ch = m.get("checks", {}).get(sys.argv[2].rstrip("abcdefgh"), {})
    print(sys.argv[2], "confirmed" if m.get("confirmed") else "NOT-CONFIRMED(demo %s/%s tests-missing %s)" % (m.get("demo_exit_clean"), m.get("demo_exit_patched"), m.get("tests_stable_pass_missing")),
          "caught" if m.get("caught_by") else "MISSED exit=%s" % ch.get("exit"), (ch.get("detail") or ch.get("tail") or [""])[0][:150])
except Exception as e:
    print(sys.argv[2], "eval failed:", txt[-300:])
PY
done
