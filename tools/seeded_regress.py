#!/venv/bin/python
"""Regression over the archived seeded changes: apply every /verif/seeded/*/patch.diff to a scratch copy of /repo's
package and expect the quick check of its property to exit 1 with a VIOLATION line.

  seeded_regress.py [name-substring ...]        (MUT_WORKERS: workers per check, default 4; 4 checks at a time)
"""
import glob
import json
import os
import shutil
import subprocess
import sys
import tempfile
from concurrent.futures import ThreadPoolExecutor

V = os.path.dirname(os.path.dirname(os.path.abspath(__file__)))


def run_one(d):
    meta = json.load(open(os.path.join(d, "meta.json")))
    prop = meta["property"]
    if meta.get("expected") == "retired":          # no longer a property-breaking change on the current tree (see its note)
        return os.path.basename(d), prop, "caught", "retired"
    scratch = tempfile.mkdtemp(prefix="reg-", dir="/dev/shm")
    try:
        dst = os.path.join(scratch, "repo")
        os.makedirs(dst)
        shutil.copytree("/repo/gaddlemaps", os.path.join(dst, "gaddlemaps"), ignore=shutil.ignore_patterns("__pycache__"))
        cp = subprocess.run(["patch", "-p1", "-s", "-d", dst, "-i", os.path.join(d, "patch.diff")], capture_output=True, text=True)
        if cp.returncode:
            return os.path.basename(d), prop, "PATCH-FAILED", cp.stdout[-200:]
        env = dict(os.environ, VERIF_REPO=dst, VERIF_SHRINK_S="5", VERIF_BUDGET_S=os.environ.get("VERIF_BUDGET_S", "3000"), VERIF_WORKERS=os.environ.get("MUT_WORKERS", "4"),
                   VERIF_REPLAY_DIR=os.path.join(scratch, "replays"))
        cp = subprocess.run([sys.executable, os.path.join(V, "check.py"), prop, "--tier", "quick", "--no-evidence"],
                            capture_output=True, text=True, env=env, timeout=3600, cwd=scratch)
        viol = any(l.startswith(f"VIOLATION property={prop} ") for l in cp.stdout.splitlines())
        clause = next((l.strip() for l in cp.stdout.splitlines() if l.startswith("violation in run")), "")
        if meta.get("expected") == "unreplayable":     # violations are seen but depend on interpreter state: exit 2, never 0
            return os.path.basename(d), prop, "caught" if cp.returncode == 2 else f"UNEXPECTED(exit {cp.returncode})", "expected HARNESS-ERROR (not replayable)"
        if meta.get("expected") == "missed":       # documented as outside the property's checked domain
            return os.path.basename(d), prop, "caught" if cp.returncode == 0 else f"UNEXPECTED(exit {cp.returncode})", "expected miss"
        return os.path.basename(d), prop, "caught" if (cp.returncode == 1 and viol) else f"MISSED(exit {cp.returncode})", clause[:90]
    finally:
        shutil.rmtree(scratch, ignore_errors=True)


def main():
    dirs = sorted(glob.glob(os.path.join(V, "seeded", "*")))
    if sys.argv[1:]:
        dirs = [d for d in dirs if any(a in os.path.basename(d) for a in sys.argv[1:])]
    missed = 0
    with ThreadPoolExecutor(max_workers=4) as ex:
        for name, prop, status, info in ex.map(run_one, dirs):
            print(f"{status:14s} {name:14s} {prop} {info}", flush=True)
            if status != "caught":
                missed += 1
    print(f"{len(dirs) - missed}/{len(dirs)} seeded changes caught")
    return 1 if missed else 0


if __name__ == "__main__":
    sys.exit(main())
