#!/bin/bash
# run every registered quick check once (VERIF_SEED from env), print one line each
cd /verif
for p in $(/venv/bin/python -c "import json;print(' '.join(c['property_id'] for c in json.load(open('MANIFEST.json'))['checks']))"); do
  /venv/bin/python check.py $p --tier ${VERIF_TIER:-quick} $EXTRA 2>&1 | grep -E "^(C[0-9]+:|VIOLATION|HARNESS|KNOWN)" 
done
