#!/venv/bin/python
"""Which lines of the library do the quick workloads never execute?  (diagnostic, not a check)
  coverage_probe.py [runs-per-part]     -- runs every property's first N runs in-process under coverage.py"""
import os, sys
os.environ.setdefault("PYTHONHASHSEED", "0")
V = os.path.dirname(os.path.dirname(os.path.abspath(__file__)))
sys.path.insert(0, V); sys.path.insert(0, "/repo")
import coverage
cov = coverage.Coverage(include=["/repo/gaddlemaps/*"], omit=["/repo/gaddlemaps/_represent.py"])
cov.start()
import gaddlemaps
from sim import core
from engines import get_engine, PROPERTIES
n = int(sys.argv[1]) if len(sys.argv) > 1 else 120
for prop, spec in sorted(PROPERTIES.items()):
    parts = spec.get("parts") or [{"engine": spec["engine"]}]
    for part in parts:
        eng = get_engine(part["engine"])
        for k in range(n):
            tr = core.generate_trace(eng, 0, "quick", prop, k)
            if tr.get("mode") == "process":
                continue
            core.run_trace(eng, tr, prop)
    print("done", prop, flush=True)
cov.stop()
cov.report(show_missing=True, skip_covered=False)
