#!/venv/bin/python
"""Confirm and archive a seeded breaking change produced in a scratch worktree.

  seed_eval.py <name> <property> <worktree> [--needs "..."] [--checks C01,C04]

Steps (all in scratch copies; /repo is never modified):
  1. patch.diff = `git diff` of the worktree (gaddlemaps/ only)
  2. the demonstration (worktree/demo.py) must exit 0 on the clean tree and non-zero with the patch
  3. the repository's stable test set (BASELINE.json) must still pass with the patch
  4. run the listed quick checks of /verif against the patched copy (VERIF_REPO) and record the outcome
Writes /verif/seeded/<name>/{patch.diff,demo.py,meta.json}."""
import json
import os
import shutil
import subprocess
import sys
import tempfile
import xml.etree.ElementTree as ET

V = os.path.dirname(os.path.dirname(os.path.abspath(__file__)))
PY = "/venv/bin/python"


def sh(cmd, **kw):
    return subprocess.run(cmd, capture_output=True, text=True, **kw)


def main():
    name, prop, wt = sys.argv[1:4]
    needs = ""
    checks = [prop]
    args = sys.argv[4:]
    i = 0
    while i < len(args):
        if args[i] == "--needs":
            needs = args[i + 1]; i += 2
        elif args[i] == "--checks":
            checks = args[i + 1].split(","); i += 2
        else:
            i += 1
    out = os.path.join(V, "seeded", name)
    os.makedirs(out, exist_ok=True)
    diff = sh(["git", "-C", wt, "diff", "--", "gaddlemaps"]).stdout
    if not diff.strip():
        print("empty diff"); return 2
    open(os.path.join(out, "patch.diff"), "w").write(diff)
    demo_src = os.path.join(wt, "demo.py")
    shutil.copy(demo_src, os.path.join(out, "demo.py"))
    scratch = tempfile.mkdtemp(prefix="seed-", dir="/dev/shm")
    meta = {"name": name, "property": prop, "needs": needs, "ran": []}
    try:
        clean = os.path.join(scratch, "clean")
        patched = os.path.join(scratch, "patched")
        for d in (clean, patched):
            os.makedirs(d)
            sh(["git", "-C", "/repo", "archive", "HEAD", "--format=tar", "-o", os.path.join(scratch, "a.tar")])
            sh(["tar", "-xf", os.path.join(scratch, "a.tar"), "-C", d])
        cp = sh(["patch", "-p1", "-d", patched, "-i", os.path.join(out, "patch.diff")])
        if cp.returncode:
            print("patch does not apply to /repo HEAD:", cp.stdout, cp.stderr); return 2
        # 2. demonstration
        res = {}
        for tag, d in (("clean", clean), ("patched", patched)):
            shutil.copy(os.path.join(out, "demo.py"), os.path.join(d, "demo.py"))
            cp = sh([PY, "demo.py"], cwd=d, env=dict(os.environ, PYTHONPATH=d), timeout=1800)
            res[tag] = cp.returncode
            meta["ran"].append(f"PYTHONPATH=<{tag} tree> python demo.py -> exit {cp.returncode}")
        meta["demo_exit_clean"], meta["demo_exit_patched"] = res["clean"], res["patched"]
        demo_ok = res["clean"] == 0 and res["patched"] != 0
        # 3. test suite
        base = json.load(open("/root/.vp/BASELINE.json"))
        junit = os.path.join(scratch, "junit.xml")
        cp = sh([PY, "-m", "pytest", "-q", "-p", "no:cacheprovider", "--timeout=900", "--continue-on-collection-errors",
                 "--junitxml=" + junit, "test"], cwd=patched, env=dict(os.environ, PYTHONPATH=patched), timeout=3600)
        passed = set()
        for tc in ET.parse(junit).iter("testcase"):
            if not any(c.tag in ("failure", "error", "skipped") for c in tc):
                passed.add(tc.get("classname") + "::" + tc.get("name"))
        missing = sorted(set(base["stable_pass"]) - passed)
        meta["tests_stable_pass_missing"] = missing
        meta["ran"].append(f"pytest (stable set of {len(base['stable_pass'])}) with the patch -> {len(missing)} of them failing")
        tests_ok = not missing
        # 4. the checks
        meta["checks"] = {}
        for c in checks:
            env = dict(os.environ, VERIF_REPO=patched, VERIF_SHRINK_S="20", VERIF_BUDGET_S="3000", VERIF_REPLAY_DIR=os.path.join(scratch, "replays"))
            cp = sh([PY, os.path.join(V, "check.py"), c, "--tier", "quick", "--no-evidence"], env=env, timeout=3600)
            viol = [l for l in cp.stdout.splitlines() if l.startswith("VIOLATION property=")]
            clause = [l for l in cp.stdout.splitlines() if l.startswith("minimised after") or l.startswith("violation in run")]
            meta["checks"][c] = {"exit": cp.returncode, "violation_line": bool(viol), "detail": clause[:2],
                                 "tail": cp.stdout.strip().splitlines()[-3:] if not viol else []}
            meta["ran"].append(f"VERIF_REPO=<patched tree> check.py {c} --tier quick -> exit {cp.returncode}")
        meta["confirmed"] = bool(demo_ok and tests_ok)
        meta["caught_by"] = [c for c, r in meta["checks"].items() if r["exit"] == 1 and r["violation_line"]]
        json.dump(meta, open(os.path.join(out, "meta.json"), "w"), indent=1)
        print(json.dumps({k: v for k, v in meta.items() if k != "ran"}, indent=1))
        return 0
    finally:
        shutil.rmtree(scratch, ignore_errors=True)


if __name__ == "__main__":
    sys.exit(main())
