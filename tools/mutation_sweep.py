#!/venv/bin/python
"""Systematic sensitivity sweep with ORDINARY mutants (diagnostic, not a check).

Generates single-site syntactic mutants of the library files the properties are anchored in (comparison / arithmetic /
boolean operator swaps, off-by-one constants, negated conditions, dropped statements), applies each to a scratch copy of
/repo (never to /repo itself), runs the quick checks of the properties that file belongs to, and lists the survivors.
Survivors are then run against the repository's own stable test set: a survivor that also passes those tests is a
candidate blind spot (or an equivalent mutant) and is written to the report for manual classification.

  mutation_sweep.py [--n 400] [--seed 1] [--files a.py,b.py] [--jobs 4] [--out report.json]
"""
import ast
import json
import os
import random
import shutil
import subprocess
import sys
import tempfile
import xml.etree.ElementTree as ET
from concurrent.futures import ThreadPoolExecutor

V = os.path.dirname(os.path.dirname(os.path.abspath(__file__)))
REPO = "/repo"
PY = "/venv/bin/python"

FILE_CHECKS = {
    "gaddlemaps/_exchage_map.py": ["C01", "C02", "C03", "C04", "C05"],
    "gaddlemaps/_auxilliary.py": ["C17", "C01", "C02", "C09"],
    "gaddlemaps/_backend.py": ["C08", "C09", "C06"],
    "gaddlemaps/_transform_molecule.py": ["C07", "C06", "C09"],
    "gaddlemaps/_alignment.py": ["C06", "C10", "C01", "C05"],
    "gaddlemaps/_manager.py": ["C05", "C10", "C20"],
    "gaddlemaps/_cli.py": ["C20"],
    "gaddlemaps/components/_system.py": ["C11", "C12", "C05"],
    "gaddlemaps/components/_components.py": ["C18", "C04", "C11", "C06"],
    "gaddlemaps/components/_residue.py": ["C18", "C19", "C12"],
    "gaddlemaps/components/_components_top.py": ["C15", "C03", "C18"],
    "gaddlemaps/components/__init__.py": ["C15", "C06"],
    "gaddlemaps/parsers/__init__.py": ["C13", "C14", "C12", "C05"],
    "gaddlemaps/parsers/_itp_parse.py": ["C16", "C15"],
    "gaddlemaps/parsers/_top_parsers.py": ["C15", "C20"],
}

CMP = {ast.Lt: "<=", ast.LtE: "<", ast.Gt: ">=", ast.GtE: ">", ast.Eq: "!=", ast.NotEq: "==", ast.Is: "is not",
       ast.IsNot: "is", ast.In: "not in", ast.NotIn: "in"}
CMP_SRC = {ast.Lt: "<", ast.LtE: "<=", ast.Gt: ">", ast.GtE: ">=", ast.Eq: "==", ast.NotEq: "!=", ast.Is: "is",
           ast.IsNot: "is not", ast.In: "in", ast.NotIn: "not in"}
BIN = {ast.Add: ("+", "-"), ast.Sub: ("-", "+"), ast.Mult: ("*", "/"), ast.Div: ("/", "*"), ast.FloorDiv: ("//", "/"),
       ast.Mod: ("%", "//")}


def candidates(path):
    """List of (kind, lineno, description, new_source_text) single-site mutants of one file."""
    src = open(path).read()
    lines = src.split("\n")
    tree = ast.parse(src)
    out = []
    doc_lines = set()
    for node in ast.walk(tree):
        if isinstance(node, (ast.FunctionDef, ast.ClassDef, ast.Module)):
            b = getattr(node, "body", [])
            if b and isinstance(b[0], ast.Expr) and isinstance(getattr(b[0], "value", None), ast.Constant) and \
                    isinstance(b[0].value.value, str):
                doc_lines.update(range(b[0].lineno, b[0].end_lineno + 1))

    def replace_span(l0, c0, l1, c1, text):
        if l0 != l1:
            return None
        ls = list(lines)
        ls[l0 - 1] = ls[l0 - 1][:c0] + text + ls[l0 - 1][c1:]
        return "\n".join(ls)

    def between(a, b, old, new):
        """Replace the first occurrence of operator `old` between the end of node a and the start of node b."""
        if a.end_lineno != b.lineno:
            return None
        line = lines[a.end_lineno - 1]
        seg = line[a.end_col_offset:b.col_offset]
        k = seg.find(old)
        if k < 0:
            return None
        ls = list(lines)
        ls[a.end_lineno - 1] = line[:a.end_col_offset] + seg[:k] + new + seg[k + len(old):] + line[b.col_offset:]
        return "\n".join(ls)

    for node in ast.walk(tree):
        ln = getattr(node, "lineno", None)
        if ln is None or ln in doc_lines:
            continue
        if isinstance(node, ast.Compare) and len(node.ops) == 1 and type(node.ops[0]) in CMP:
            new = between(node.left, node.comparators[0], CMP_SRC[type(node.ops[0])], CMP[type(node.ops[0])])
            if new:
                out.append(("cmp", ln, f"{CMP_SRC[type(node.ops[0])]} -> {CMP[type(node.ops[0])]}", new))
        elif isinstance(node, ast.BinOp) and type(node.op) in BIN:
            if isinstance(node.left, ast.Constant) and isinstance(node.left.value, str):
                continue
            old, newop = BIN[type(node.op)]
            new = between(node.left, node.right, old, newop)
            if new:
                out.append(("bin", ln, f"{old} -> {newop}", new))
        elif isinstance(node, ast.BoolOp) and len(node.values) == 2:
            old, newop = ("and", "or") if isinstance(node.op, ast.And) else ("or", "and")
            new = between(node.values[0], node.values[1], old, newop)
            if new:
                out.append(("bool", ln, f"{old} -> {newop}", new))
        elif isinstance(node, ast.UnaryOp) and isinstance(node.op, ast.Not):
            new = replace_span(node.lineno, node.col_offset, node.lineno, node.operand.col_offset, "")
            if new:
                out.append(("not", ln, "not dropped", new))
        elif isinstance(node, ast.Constant) and isinstance(node.value, int) and not isinstance(node.value, bool) and \
                node.lineno == node.end_lineno:
            for delta in (1, -1):
                if node.value + delta < 0 and node.value >= 0:
                    continue
                new = replace_span(node.lineno, node.col_offset, node.lineno, node.end_col_offset, str(node.value + delta))
                if new:
                    out.append(("const", ln, f"{node.value} -> {node.value + delta}", new))
        elif isinstance(node, ast.Constant) and isinstance(node.value, bool) and node.lineno == node.end_lineno:
            new = replace_span(node.lineno, node.col_offset, node.lineno, node.end_col_offset, str(not node.value))
            if new:
                out.append(("flag", ln, f"{node.value} -> {not node.value}", new))
        elif isinstance(node, (ast.If, ast.While)) and node.test.lineno == node.test.end_lineno:
            t = node.test
            line = lines[t.lineno - 1]
            new = replace_span(t.lineno, t.col_offset, t.lineno, t.end_col_offset, "not (" + line[t.col_offset:t.end_col_offset] + ")")
            if new and isinstance(node, ast.If):
                out.append(("negate", ln, "condition negated", new))
        elif isinstance(node, (ast.Assign, ast.AugAssign, ast.Expr)) and node.lineno == node.end_lineno and \
                not (isinstance(node, ast.Expr) and isinstance(node.value, ast.Constant)):
            line = lines[node.lineno - 1]
            indent = line[:len(line) - len(line.lstrip())]
            if isinstance(node, ast.AugAssign) or (isinstance(node, ast.Expr) and isinstance(node.value, ast.Call)):
                ls = list(lines)
                ls[node.lineno - 1] = indent + "pass"
                out.append(("drop", ln, "statement dropped: " + line.strip()[:50], "\n".join(ls)))
    return out


def run_mutant(args):
    idx, rel, kind, ln, desc, new_src = args
    scratch = tempfile.mkdtemp(prefix="msw-", dir="/dev/shm")
    try:
        dst = os.path.join(scratch, "repo")
        os.makedirs(dst)
        shutil.copytree(os.path.join(REPO, "gaddlemaps"), os.path.join(dst, "gaddlemaps"), ignore=shutil.ignore_patterns("__pycache__"))
        with open(os.path.join(dst, rel), "w") as f:
            f.write(new_src)
        try:
            compile(new_src, rel, "exec")
        except SyntaxError:
            return idx, rel, ln, kind, desc, "invalid", {}
        cp = subprocess.run([PY, "-c", "import gaddlemaps"], cwd=dst, env=dict(os.environ, PYTHONPATH=dst), capture_output=True, timeout=120)
        if cp.returncode:
            return idx, rel, ln, kind, desc, "import-fails", {}
        res = {}
        for prop in FILE_CHECKS[rel]:
            env = dict(os.environ, VERIF_REPO=dst, VERIF_SHRINK_S="2", VERIF_WORKERS=os.environ.get("MUT_WORKERS", "4"),
                       VERIF_REPLAY_DIR=os.path.join(scratch, "replays"), VERIF_NO_CROSS="1")
            try:
                cp = subprocess.run([PY, os.path.join(V, "check.py"), prop, "--tier", "quick", "--no-evidence"],
                                    capture_output=True, text=True, env=env, timeout=1500, cwd=scratch)
                rc = cp.returncode
            except subprocess.TimeoutExpired:
                rc = 124
            res[prop] = rc
            if rc == 1:
                return idx, rel, ln, kind, desc, "killed:" + prop, res
        if any(rc not in (0, 1) for rc in res.values()):
            return idx, rel, ln, kind, desc, "harness-error-only", res
        # survivor: does it pass the repository's own stable tests?
        base = json.load(open("/root/.vp/BASELINE.json"))
        shutil.copytree(os.path.join(REPO, "test"), os.path.join(dst, "test"))
        junit = os.path.join(scratch, "junit.xml")
        subprocess.run([PY, "-m", "pytest", "-q", "-p", "no:cacheprovider", "--timeout=600", "--continue-on-collection-errors",
                        "--junitxml=" + junit, "test"], cwd=dst, env=dict(os.environ, PYTHONPATH=dst), capture_output=True, timeout=3000)
        passed = set()
        try:
            for tc in ET.parse(junit).iter("testcase"):
                if not any(c.tag in ("failure", "error", "skipped") for c in tc):
                    passed.add(tc.get("classname") + "::" + tc.get("name"))
        except Exception:
            pass
        missing = sorted(set(base["stable_pass"]) - passed)
        return idx, rel, ln, kind, desc, ("SURVIVOR" if not missing else "survives-checks-but-fails-tests:" + missing[0].split("::")[-1]), res
    finally:
        shutil.rmtree(scratch, ignore_errors=True)


def main():
    a = sys.argv[1:]
    n, seed, files, jobs, out = 400, 1, None, 4, "/dev/shm/mutation_report.json"
    i = 0
    while i < len(a):
        if a[i] == "--n":
            n = int(a[i + 1])
        elif a[i] == "--seed":
            seed = int(a[i + 1])
        elif a[i] == "--files":
            files = a[i + 1].split(",")
        elif a[i] == "--jobs":
            jobs = int(a[i + 1])
        elif a[i] == "--out":
            out = a[i + 1]
        i += 2
    rng = random.Random(seed)
    allc = []
    for rel in FILE_CHECKS:
        if files and not any(f in rel for f in files):
            continue
        cs = candidates(os.path.join(REPO, rel))
        for kind, ln, desc, new in cs:
            allc.append((rel, kind, ln, desc, new))
    rng.shuffle(allc)
    chosen = allc[:n]
    print(f"{len(allc)} candidate mutants, {len(chosen)} sampled (seed {seed})", flush=True)
    report = []
    with ThreadPoolExecutor(max_workers=jobs) as ex:
        for idx, rel, ln, kind, desc, status, res in ex.map(run_mutant, [(k,) + c for k, c in enumerate(chosen)]):
            report.append({"file": rel, "line": ln, "kind": kind, "desc": desc, "status": status, "checks": res})
            if not status.startswith("killed"):
                src_line = open(os.path.join(REPO, rel)).read().split("\n")[ln - 1].strip()[:90]
                print(f"{status:40s} {rel}:{ln} [{kind}] {desc} | {src_line}", flush=True)
            json.dump(report, open(out, "w"), indent=1)
    from collections import Counter
    c = Counter(r["status"].split(":")[0] for r in report)
    print(dict(c))
    return 0


if __name__ == "__main__":
    sys.exit(main())
