"""Regenerate /verif/MANIFEST.json from the engine registry (engines/__init__.py)."""
import json, os, sys
V = os.path.dirname(os.path.dirname(os.path.abspath(__file__)))
sys.path.insert(0, V)
from engines import PROPERTIES, NOT_APPLICABLE, ENGINE_KINDS  # noqa

props = [json.loads(l) for l in open(os.path.join(V, "properties.jsonl"))]
ids = [p["id"] for p in props]
checks = []
for pid in ids:
    if pid not in PROPERTIES:
        continue
    s = PROPERTIES[pid]
    checks.append({
        "property_id": pid,
        "quick_cmd": f"/venv/bin/python /verif/check.py {pid} --tier quick",
        "thorough_cmd": f"/venv/bin/python /verif/check.py {pid} --tier thorough",
        "evidence_file": f"/verif/evidence/{pid}.json",
        "replay_cmd_template": "/venv/bin/python /verif/check.py --replay {path}",
        "engine": s.get("engine") or "+".join(q["engine"] for q in s["parts"]),
        "level_claimed": {"category": s["level"], "text": s["level_text"], "design_ref": s.get("design_ref", "DESIGN.md sec. 4, " + pid)},
        "level_note": s["level_note"],
        "technique": s["technique"],
    })
na = []
for pid in ids:
    if pid in PROPERTIES:
        continue
    na.append({"property_id": pid, "reason": NOT_APPLICABLE.get(pid, "check under construction (DESIGN.md sec. 4); not yet claimed")})
engines = {}
for pid, s in PROPERTIES.items():
    for e in ([s["engine"]] if "engine" in s else [q["engine"] for q in s["parts"]]):
        engines.setdefault(e, []).append(pid)
m = {
    "version": 1,
    "setup_cmd": "/venv/bin/python /verif/setup_check.py",
    "hooks": {
        "guard": "GADDLEMAPS_VERIF",
        "enable": ("no source hooks are needed: every seam is a module attribute the harness patches at run time "
                   "(numpy.random functions, `open` in gaddlemaps.parsers / _itp_parse, module globals of "
                   "gaddlemaps._backend / _alignment / _cli / _transform_molecule); GADDLEMAPS_VERIF is reserved and is not read by /repo"),
        "baseline_off_cmd": "cd /repo && /venv/bin/python -m pytest -ra -q -p no:cacheprovider --timeout=900 --continue-on-collection-errors",
        "source_commits": [],
        "add_only": True,
    },
    "engines": [{"name": e, "path": f"/verif/engines/{e}.py", "serves_properties": sorted(ps),
                 "kind_free_text": ENGINE_KINDS.get(e, "")} for e, ps in sorted(engines.items())],
    "checks": checks,
    "not_applicable": na,
    "notes": ("Deterministic simulation harness: one VERIF_SEED decides every run (sha256(seed/engine/run) -> PRNG); traces are "
              "self-contained JSON replay files; violations are minimised by delta debugging and re-executed in a fresh "
              "interpreter before being reported.  Exit 2 + 'HARNESS-ERROR' means the simulator itself failed (never success). "
              "known_findings.json lists repaired defects ('fixed:' lines) and any recorded finding."),
}
json.dump(m, open(os.path.join(V, "MANIFEST.json"), "w"), indent=1)
print("checks:", [c["property_id"] for c in checks], "n/a:", [n["property_id"] for n in na])
