"""Engine `grosys` (C12): one SystemGro, several concurrent consumers.

The "nodes" are live iterators over the same SystemGro plus one-shot indexed / sliced
accesses; they all share one file handle and its cursor.  A seeded scheduler decides which
consumer takes its next step; every returned residue is compared with an independent parse
of the file."""
import os

import numpy as np

from sim import gen

NAME = "grosys"
P = "C12"

LETTERS = "ABCDFGHIJKLMNOPQRSTUVWXYZ"


def _rname(rng):
    return rng.choice(LETTERS) + "".join(rng.choice(LETTERS + "0123456789") for _ in range(rng.randint(0, 4)))


def gen_file(rng, tier):
    big = rng.random() < (0.05 if tier == "quick" else 0.2)
    n_res = rng.randint(41, 400) if big else rng.choice([1, 2, 3, rng.randint(1, 12), rng.randint(1, 40)])
    if rng.random() < 0.0015:
        n_res = rng.choice([rng.randint(400, 700), rng.randint(2500, 3500), rng.randint(4500, 6000)])   # files of 100 KiB .. 2 MiB
    vel = rng.random() < 0.35
    n_kinds = rng.randint(1, 5)
    kinds = []
    # coordinate layout: %8.3f as GROMACS writes by default, or another precision (width = decimals + 5; velocities one
    # decimal more in the same width): the length of an atom line follows from it
    dec = 3 if rng.random() < 0.75 else rng.choice([1, 2, 4, 5, 6])
    wid = dec + 5
    long_names = rng.random() < 0.25        # atom names that fill their five columns
    # values that fill their column completely (no blank between two numbers): a large box, a molecule far outside it
    wide = rng.random() < 0.2

    def fill(d_):
        """A value that needs all `wid` characters with d_ decimals in it."""
        int_chars = wid - d_ - 1
        if rng.random() < 0.5 and int_chars >= 2:
            return -round(rng.uniform(10 ** (int_chars - 2), 10 ** (int_chars - 1) - 1), d_)
        return round(rng.uniform(10 ** (int_chars - 1), 10 ** int_chars - 1), d_)
    for k in range(n_kinds):
        size = rng.randint(1, 12)
        kinds.append((_rname(rng), [(rng.choice("CNOHSP") + rng.choice("ABGD") + "%03d" % (i + 1)) if long_names and rng.random() < 0.6
                                    else rng.choice("CNOHSP") + str(i + 1) for i in range(size)]))
    if n_kinds >= 2 and rng.random() < 0.4:
        # equal residue name, different size
        nm = kinds[0][0]
        size = rng.choice([s for s in range(1, 13) if s != len(kinds[0][1])])
        kinds[1] = (nm, [rng.choice("CNOHSP") + str(i + 1) for i in range(size)])
    pattern = rng.choice(["blocks", "alternating", "random"])
    order = []
    if pattern == "blocks":
        while len(order) < n_res:
            k = rng.randrange(n_kinds)
            order += [k] * rng.randint(1, max(1, n_res // 2))
        order = order[:n_res]
    elif pattern == "alternating":
        order = [i % n_kinds for i in range(n_res)]
    else:
        order = [rng.randrange(n_kinds) for _ in range(n_res)]
    lines = []
    atomid = rng.choice([1, 1, 99990])
    resid = rng.choice([1, 1, 7, 99995])
    for r, k in enumerate(order):
        name, atoms = kinds[k]
        for an in atoms:
            x, y, z = (round(rng.uniform(-5, 30), dec) for _ in range(3))
            if rng.random() < 0.04:
                x, y, z = 0.0, 0.0, 0.0                    # an atom exactly at the origin
            if wide and rng.random() < 0.3:
                x, y, z = [fill(dec) if rng.random() < 0.6 else c_ for c_ in (x, y, z)]
            l = "%5d%-5s%5s%5d" % (resid % 100000, name, an, atomid % 100000) + "".join("%*.*f" % (wid, dec, c_) for c_ in (x, y, z))
            if vel:
                v = tuple(round(rng.uniform(-3, 3), dec + 1) for _ in range(3))
                c = rng.random()
                if c < 0.06:
                    v = (0.0, 0.0, 0.0)                     # an atom at rest (frozen group, freshly inserted ion)
                elif c < 0.1:
                    v = (0.0, v[1], 0.0)
                elif wide and c < 0.3:
                    v = tuple(fill(dec + 1) if rng.random() < 0.6 else c_ for c_ in v)
                l += "".join("%*.*f" % (wid, dec + 1, c_) for c_ in v)
            lines.append(l)
            atomid += 1
        c = rng.random()
        if c < 0.75:
            resid += 1                       # number changes (name may or may not)
        elif c < 0.9:
            resid += rng.randint(2, 50)
        # else: the number stays: the next residue is a new one only if its name differs; equal (number, name)
        # records merge into one residue by the rule the property states
    title = rng.choice(["Generated system", "t= 0.0 step= 0", "  leading blanks", "x" * 70, "1234", "   ", " ", "\t"])     # (a title of blanks is a title)
    box = [round(rng.uniform(1, 40), 5) for _ in range(3)]
    if rng.random() < 0.3:
        box += [0.0, 0.0, round(rng.uniform(-3, 3), 5), 0.0, round(rng.uniform(-3, 3), 5), round(rng.uniform(-3, 3), 5)]
    text = title + "\n" + ("%5d" % len(lines)) + "\n" + "\n".join(lines) + "\n" + " ".join("%10.5f" % b for b in box) + "\n"
    return text


def generate(rng, tier, focus):
    text = gen_file(rng, tier)
    n_lines = text.count("\n") - 3
    # number of residues is not known to the generator exactly (merging); ops use relative positions in [0,1]
    ops = []
    n_ops = rng.randint(5, 60) if tier == "quick" else rng.randint(5, 200)
    n_iters = 0
    for _ in range(n_ops):
        c = rng.random()
        if c < 0.12 and n_iters < 4:
            ops.append({"op": "new_iter"})
            n_iters += 1
        elif c < 0.5 and n_iters:
            ops.append({"op": "step", "it": rng.randrange(n_iters), "n": rng.choice([1, 1, 1, 2, 5])})
        elif c < 0.7:
            ops.append({"op": "get", "rel": rng.uniform(-1.3, 1.3), "edge": rng.choice([None, None, None, 0, -1, "n", "-n", "-n-1", "n-1"])})
        elif c < 0.9:
            ops.append({"op": "slice", "a": rng.choice([None, rng.uniform(-1.2, 1.2)]), "b": rng.choice([None, rng.uniform(-1.2, 1.2)]),
                        "step": rng.choice([None, 1, 2, 3, -1, -2, -3])})
        else:
            ops.append({"op": rng.choice(["len", "natoms", "box", "title", "full_iter"])})
    if not any(o["op"] == "full_iter" for o in ops) and rng.random() < 0.5:
        ops.append({"op": "full_iter"})
    return {"text": text, "ops": ops, "open_file": rng.random() < 0.2,
            "crlf": rng.random() < 0.12,            # DOS line ends (a file that went through another system)
            "rewritten_path": rng.random() < 0.15}   # the path held another file of the same atom count before


def abbreviate(trace):
    return {"file_head": trace["text"].split("\n")[:6], "n_lines": trace["text"].count("\n"), "ops": trace["ops"][:12],
            "n_ops": len(trace["ops"])}


def parse_expected(text):
    lines = text.split("\n")
    title = lines[0] + "\n"
    n = int(lines[1])
    recs = []
    for l in lines[2:2 + n]:
        # field width = distance between the first two decimal points after column 20
        p1 = l.index(".", 20)
        w = l.index(".", p1 + 1) - p1
        nf = (len(l) - 20) // w
        vals = [float(l[20 + w * k:20 + w * (k + 1)]) for k in range(nf)]
        recs.append((int(l[0:5]), l[5:10].strip(), l[10:15].strip(), int(l[15:20]), tuple(vals[:3]),
                     tuple(vals[3:6]) if nf == 6 else None))
    residues = []
    for r in recs:
        if residues and (residues[-1][-1][0], residues[-1][-1][1]) == (r[0], r[1]):
            residues[-1].append(r)
        else:
            residues.append([r])
    nums = [float(x) for x in lines[2 + n].split()]
    box = np.zeros(9)
    for idx, v in zip((0, 4, 8, 1, 2, 3, 5, 6, 7), nums):
        box[idx] = v
    return title, n, residues, box.reshape(3, 3)


def residue_matches(res, want):
    try:
        atoms = list(res)
    except Exception as e:
        return f"not iterable: {e!r}"
    if len(atoms) != len(want):
        return f"{len(atoms)} atoms, file has {len(want)}"
    try:
        # the residue as a whole: its own length, name and number
        if len(res) != len(want):
            return f"len(residue) = {len(res)}, file has {len(want)} atoms"
        if hasattr(res, "resname") and res.resname != want[0][1]:
            return f"residue name {res.resname!r}, file has {want[0][1]!r}"
        if hasattr(res, "resid") and res.resid != want[0][0]:
            return f"residue number {res.resid!r}, file has {want[0][0]!r}"
    except Exception as e:
        return f"residue attributes raised {e!r}"
    for a, w in zip(atoms, want):
        got = (a.resid, a.resname, a.name, a.atomid, tuple(float(x) for x in a.position),
               None if a.velocity is None else tuple(float(x) for x in a.velocity))
        if got != w:
            return f"atom record {got} != file record {w}"
    return None


def execute(trace, ctx):
    from gaddlemaps.components import SystemGro
    text = trace["text"]
    title, natoms, expected, box = parse_expected(text)
    n = len(expected)
    d = ctx.tmpdir()
    path = os.path.join(d, "sys.gro")
    if trace.get("rewritten_path"):
        # the same path first holds ANOTHER system with the same number of atoms and another residue partition; it is
        # loaded and read, then the file is replaced
        lines0 = text.split("\n")
        n_at = int(lines0[1])
        other = list(lines0)
        for k in range(n_at):
            l = lines0[2 + k]
            other[2 + k] = "%5d%-5s" % (1 + k // 2, "OTH") + l[10:]
        try:
            with open(path, "w") as f:
                f.write("\n".join(other))
            old = SystemGro(path)
            _ = len(old), [r for r in old][:3]
            del old
        except Exception as e:
            ctx.violate(P, "load-raised", f"loading the earlier occupant of the path raised {type(e).__name__}: {e}")
            return
        ctx.probe("path_held_another_file_before")
    if trace.get("crlf"):
        with open(path, "w", newline="") as f:
            f.write(text.replace("\n", "\r\n"))
        ctx.probe("dos_line_ends")
    else:
        with open(path, "w") as f:
            f.write(text)
    if len(trace["ops"]) % 6 == 2 and not trace.get("open_file") and not trace.get("rewritten_path"):
        # the file is reached as <link>/../sys.gro where <link> points to a directory elsewhere: the operating system
        # resolves the link first (so ".." is the parent of the link's TARGET); a lexical clean-up of the path lands on
        # another file of the same name, which exists and holds another system
        store = os.path.join(d, "store", "deep")
        os.makedirs(store, exist_ok=True)
        os.makedirs(os.path.join(d, "run"), exist_ok=True)
        real_ = os.path.join(d, "store", "sys.gro")
        os.replace(path, real_)
        ls_ = text.split("\n")
        for k_ in range(int(ls_[1])):
            ls_[2 + k_] = "%5d%-5s" % (1 + k_ // 2, "DEC") + ls_[2 + k_][10:]
        with open(os.path.join(d, "run", "sys.gro"), "w") as f_:
            f_.write("\n".join(ls_))
        os.symlink(store, os.path.join(d, "run", "latest"))
        path = os.path.join(d, "run", "latest", "..", "sys.gro")
        ctx.probe("path_through_a_linked_directory")
    try:
        if trace.get("open_file"):
            fh = open(path)                     # "Gromacs file path or open file"
            sg = SystemGro(fh)
            ctx.probe("built_from_open_file")
        else:
            sg = SystemGro(path)
    except Exception as e:
        ctx.op("load", "raised")
        ctx.violate(P, "load-raised", f"SystemGro raised {type(e).__name__}: {e}")
        return
    ctx.op("load", "ok")
    view_path = path
    if len(trace["ops"]) % 5 == 1 and not trace.get("open_file"):
        # after loading: the file is renamed and a DIFFERENT system (same atom count, every residue renamed) is written
        # under the old name -- the view keeps describing the file it loaded
        os.rename(path, path[:-4] + "_loaded.gro")
        ls_ = text.split("\n")
        n_at_ = int(ls_[1])
        for k_ in range(n_at_):
            ls_[2 + k_] = "%5d%-5s" % (1 + k_ // 3, "XXX") + ls_[2 + k_][10:]
        with open(path, "w") as f_:
            f_.write("\n".join(ls_))
        ctx.fault("file_replaced_under_its_name_after_loading")
        view_path = path[:-4] + "_loaded.gro"
    sizes = {len(r) for r in expected}
    if any(expected[i][0][1] == expected[i + 1][0][1] and len(expected[i]) != len(expected[i + 1]) for i in range(n - 1)):
        ctx.probe("equal_name_different_size_adjacent")
    iters = []     # [iterator, position]
    retained = []  # (residue object handed out, its index): checked again at the end, after everything else was read

    def idx(rel, edge):
        if edge is None:
            return int(round(rel * n))
        return {"n": n, "-n": -n, "-n-1": -n - 1, "n-1": n - 1}.get(edge, edge)

    for i, op in enumerate(trace["ops"]):
        ctx.op_index = i
        ctx.steps += 1
        kind = op["op"]
        try:
            if kind == "new_iter":
                iters.append([iter(sg), 0])
                ctx.op("new_iter")
            elif kind == "step":
                if op["it"] >= len(iters):
                    continue
                it = iters[op["it"]]
                for _ in range(op["n"]):
                    if it[1] is None:
                        break
                    try:
                        res = next(it[0])
                    except StopIteration:
                        if it[1] != n:
                            ctx.violate(P, "iteration-ended-early", f"an iterator stopped after {it[1]} residues; the file has {n}")
                        it[1] = None
                        ctx.op("step", "exhausted")
                        break
                    if it[1] >= n:
                        ctx.violate(P, "iteration-too-long", f"an iterator yielded more than the {n} residues of the file")
                        it[1] = None
                        break
                    if len(retained) < 300:
                        retained.append((res, it[1]))
                    m = residue_matches(res, expected[it[1]])
                    if m:
                        ctx.violate(P, "iterated-residue", f"item {it[1]} of a live iterator (after {i} interleaved operations): {m}",
                                    key="interleaved" if len(iters) > 1 or i > 1 else "plain")
                    it[1] += 1
                    if sum(1 for x in iters if x[1] not in (None, 0)) > 1:
                        ctx.probe("two_live_iterators_mid_file")
                    ctx.op("step", "ok")
            elif kind == "get":
                k = idx(op["rel"], op["edge"])
                in_range = -n <= k < n
                try:
                    res = sg[k]
                except Exception as e:
                    ctx.op("get", "out-of-range-error")
                    if in_range:
                        ctx.violate(P, "index-error-in-range", f"residue index {k} of {n} raised {type(e).__name__}: {e}")
                    continue
                if not in_range:
                    ctx.violate(P, "index-out-of-range-accepted", f"residue index {k} of {n} returned a residue")
                    continue
                if len(retained) < 300:
                    retained.append((res, k))
                m = residue_matches(res, expected[k])
                if m:
                    ctx.violate(P, "indexed-residue", f"residue [{k}] (operation {i}): {m}", key="neg" if k < 0 else "pos")
                ctx.op("get", "neg" if k < 0 else "pos")
            elif kind == "slice":
                a = None if op["a"] is None else int(round(op["a"] * n))
                b = None if op["b"] is None else int(round(op["b"] * n))
                got = sg[a:b:op["step"]]
                want = expected[a:b:op["step"]]
                if len(got) != len(want):
                    ctx.violate(P, "slice-length", f"slice [{a}:{b}:{op['step']}] of {n} residues returned {len(got)} items, "
                                                   f"expected {len(want)}")
                else:
                    for j, (g, w) in enumerate(zip(got, want)):
                        m = residue_matches(g, w)
                        if m:
                            ctx.violate(P, "sliced-residue", f"slice [{a}:{b}:{op['step']}] item {j}: {m}")
                            break
                if op["step"] is not None and op["step"] < 0:
                    ctx.probe("negative_step_slice")
                ctx.op("slice", "neg" if (op["step"] or 1) < 0 else "pos")
            elif kind == "len":
                if len(sg) != n:
                    ctx.violate(P, "length", f"len = {len(sg)}, the file has {n} residues")
                ctx.op("len")
            elif kind == "natoms":
                if sg.n_atoms != natoms:
                    ctx.violate(P, "atom-count", f"n_atoms = {sg.n_atoms}, the file has {natoms}")
                ctx.op("natoms")
            elif kind == "box":
                if np.max(np.abs(np.array(sg.box_matrix) - box)) > 1e-9:
                    ctx.violate(P, "box", f"box {np.array(sg.box_matrix).tolist()} != file {box.tolist()}")
                ctx.op("box")
            elif kind == "title":
                if sg.comment_line.rstrip("\n") != title.rstrip("\n"):
                    ctx.violate(P, "title", f"title {sg.comment_line!r} != file {title!r}")
                ctx.op("title")
            elif kind == "full_iter":
                got = list(sg)
                if len(got) != n:
                    ctx.violate(P, "full-iteration-length", f"a full iteration gave {len(got)} residues, the file has {n}")
                else:
                    for j, (g, w) in enumerate(zip(got, expected)):
                        m = residue_matches(g, w)
                        if m:
                            ctx.violate(P, "full-iteration", f"full iteration item {j}: {m}")
                            break
                ctx.op("full_iter")
        except Exception as e:
            import traceback
            ctx.op(kind, "raised")
            ctx.violate(P, "access-raised", f"operation {op} raised {type(e).__name__}: {e}\n{traceback.format_exc()[-600:]}",
                        key=kind)
    # residues handed out earlier are still the file's records ("the same data regardless of what was read before" also
    # for the objects the caller still holds)
    for res, k in retained:
        m = residue_matches(res, expected[k])
        if m:
            ctx.violate(P, "retained-residue-changed", f"the residue returned earlier for position {k} changed after later "
                                                       f"accesses: {m}")
            break
    if retained:
        ctx.probe("retained_residues_rechecked")
    # the usual idiom `for residue in SystemGro(path)`: nothing but the iterator keeps the view alive
    if len(trace["ops"]) % 3 == 0:
        import gc
        got = []
        try:
            it = iter(SystemGro(view_path))
            got = []
            for k, res in enumerate(it):
                if k == 1:
                    gc.collect()
                got.append(res)
                if len(got) > n:
                    break
        except Exception as e:
            n_got = len(got)
            ctx.violate(P, "temporary-view-iteration", f"`for residue in SystemGro(path)` raised {type(e).__name__}: {e} after "
                                                       f"{n_got} of {n} residues")
            got = None
        if got is not None:
            if len(got) != n:
                ctx.violate(P, "temporary-view-iteration", f"`for residue in SystemGro(path)` yielded {len(got)} residues; the file has {n}")
            else:
                for k, res in enumerate(got):
                    mm = residue_matches(res, expected[k])
                    if mm:
                        ctx.violate(P, "temporary-view-iteration", f"`for residue in SystemGro(path)`, item {k}: {mm}")
                        break
        ctx.probe("iterated_a_temporary_view")
    ctx.nontrivial = True
    del sg
