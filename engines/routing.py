"""Engine `routing` (C10): what reaches the optimiser / the per-species alignment.

Three modes:
 * align   -- Alignment.align_molecules with the optimiser entry point replaced by a recording
              stub (the property is about what reaches it): restraints must designate, by
              COORDINATES, the atoms the user meant, whichever molecule is larger and whether or
              not hydrogens are filtered.
 * guess   -- guess_residue_restrains over residue-length pairs (run 0 enumerates all 40x40) and
              guess_protein_restrains on random multi-residue molecules.
 * manager -- Manager.align_molecules on a generated multi-species system (real files) with
              Alignment.align_molecules replaced by a recording stub: per-species options must
              arrive at exactly that species' alignment; unknown names / malformed values must be
              rejected before the first alignment call."""
import os

import numpy as np

from sim import gen
from sim.seams import patched
from engines import system as system_engine

NAME = "routing"
P = "C10"
USES_INDEX = True


def generate(rng, tier, focus, k=None):
    if k == 0:
        return {"mode": "guess_all"}
    c = rng.random()
    if c < 0.5:
        return gen_align(rng, tier)
    if c < 0.7:
        return gen_guess(rng, tier)
    return gen_manager(rng, tier)


def gen_align(rng, tier):
    hi = 12 if tier == "quick" or rng.random() < 0.7 else 40
    c = rng.random()
    if c < 0.2:
        ns = ne = rng.randint(2, hi)
    else:
        ns, ne = rng.randint(1, hi), rng.randint(2, hi)
        if rng.random() < 0.5:
            ns, ne = ne, ns
        if ne == 1:
            ne = 2     # a one-atom end molecule returns before the optimiser is reached
    p_h = rng.choice([0.0, 0.3, 0.6, 0.9])
    guess = None
    n_res = 1
    if min(ns, ne) >= 2 and rng.random() < 0.3:
        # multi-residue molecules: restrictions=None lets the alignment guess the pairs by residue matching (or not)
        n_res = rng.randint(2, min(4, ns, ne))
        guess = {"auto": rng.random() < 0.75, "omit_flag": rng.random() < 0.5}
    n_res_end = n_res
    if guess is not None and guess["auto"] and ne >= n_res + 1 and rng.random() < 0.15:
        n_res_end = n_res + 1          # the end molecule has one residue more: automatic guessing must refuse the pair
        guess["unequal"] = True
    start = gen.mol_spec(rng, "SPC", ns, p_hydrogen=p_h, tree_style=None, n_res=n_res)
    end = gen.mol_spec(rng, "SPC", ne, p_hydrogen=p_h, tree_style=None, n_res=n_res_end)
    if guess is not None and rng.random() < 0.3:
        # a homopolymer: every residue carries the same name (the residues differ by their numbers only)
        for spec in (start, end):
            spec["resnames"] = ["EO"] * len(spec["resnames"])
        guess["homopolymer"] = True
    for spec in (start, end):
        spec["positions"] = (np.array(spec["positions"]) + np.array(gen.rvec(rng, 5.0))).tolist()
        if rng.random() < 0.3:
            # hydrogens named the other way round ("1H2": number first); the element is still the letters
            spec["atom_names"] = [(nm[1:][:1] or "1") + "H" + nm[1:][1:2] if nm.startswith("H") and rng.random() < 0.5 else nm
                                  for nm in spec["atom_names"]]
    n_r = rng.choice([0, 1, 2, 5, 12])
    restr = [[rng.randrange(ns), rng.randrange(ne)] for _ in range(n_r)]
    if restr and rng.random() < 0.3:
        restr.append(list(restr[0]))
    if guess is not None:
        restr = []
    reuse = None
    if rng.random() < 0.25:
        # an Alignment that has already aligned ANOTHER pair (other sizes, hydrogens elsewhere) is emptied and re-used
        o_ns, o_ne = rng.randint(2, hi), rng.randint(2, hi)
        reuse = {"start": gen.mol_spec(rng, "OLD", o_ns, p_hydrogen=rng.choice([0.3, 0.6])),
                 "end": gen.mol_spec(rng, "OLD", o_ne, p_hydrogen=rng.choice([0.3, 0.6])),
                 "ignore_h": rng.random() < 0.8}
    return {"mode": "align", "reuse": reuse, "guess": guess, "start": start, "end": end, "restraints": restr, "ignore_h": rng.random() < 0.6,
            "deform": rng.choice([None, [0], [0, 1], [1, 0, 2] if min(ns, ne) >= 2 else [0, 1]]),
            "as_tuples": rng.random() < 0.5, "twice": rng.random() < 0.3}


def gen_guess(rng, tier):
    n_res = rng.randint(2, 6)
    lens1 = [rng.randint(1, 12) for _ in range(n_res)]
    lens2 = [rng.randint(1, 12) for _ in range(n_res)]
    mismatch = rng.random() < 0.25
    if mismatch:
        lens2 = lens2[:rng.randint(1, n_res - 1)] if rng.random() < 0.5 else lens2 + [rng.randint(1, 5)]
    similar_names = rng.random() < 0.3
    return {"mode": "guess_protein", "lens1": lens1, "lens2": lens2, "similar_names": similar_names,
            "seed": rng.randrange(2 ** 31)}


def gen_manager(rng, tier):
    species, text, instances, _large = system_engine.gen_world(rng, tier)
    if _large:
        return gen_align(rng, tier)
    present = sorted({i["species"] for i in instances})
    if not present:
        return gen_align(rng, tier)
    with_end = [s for s in present if rng.random() < 0.8] or present[:1]
    ends = {}
    for s in with_end:
        n = rng.randint(2, 9)
        e = gen.mol_spec(rng, species[s]["name"], n, p_hydrogen=0.3)
        ends[str(s)] = e
    names = {s: species[s]["name"] for s in present}
    restr, deform, ignore = {}, {}, {}
    for s in with_end:
        nm = names[s]
        ns = len(species[s]["atom_names"])
        ne = len(ends[str(s)]["positions"])
        if rng.random() < 0.5:
            restr[nm] = [[rng.randrange(ns), rng.randrange(ne)] for _ in range(rng.randint(0, 3))]
        if rng.random() < 0.5:
            deform[nm] = rng.choice([[0], [0, 1], [2, 0], [0, 1, 2], []])
        if rng.random() < 0.5:
            ignore[nm] = rng.random() < 0.5
    use = {"restr": rng.random() < 0.8, "deform": rng.random() < 0.7, "ignore": rng.random() < 0.7}
    bad = None
    if rng.random() < 0.4:
        target = names[rng.choice(with_end)]
        without_end = [names[s] for s in present if s not in with_end]
        kinds = ["unknown_restr", "unknown_deform", "unknown_ignore", "fragment_restr", "fragment_deform", "fragment_ignore", "tuple_len", "index_range_start", "index_range_end",
                 "index_boundary_start", "index_boundary_end",
                 "deform_not_sequence", "deform_too_long", "ignore_not_bool"]
        if without_end:
            kinds.append("species_without_end")
        # an unknown name that is a FRAGMENT of the known ones (prefix, suffix, separator, empty): only exact names count
        frags = [target[:-1], target[1:], target[:1], "", ", ", target + ", "]
        known = set(names.values())
        frags = [f for f in frags if f not in known]
        bad = {"kind": rng.choice(kinds), "target": target, "other": without_end[0] if without_end else None,
               "fragment": rng.choice(frags),
               # after the rejected call: (possibly) one more species gets its end molecule, then a VALID call is made on the
               # same manager
               "retry": rng.random() < 0.6, "late_species": rng.random() < 0.6}
    return {"mode": "manager", "species": species, "text": text, "present": present, "with_end": with_end, "ends": ends,
            "restr": restr, "deform": deform, "ignore": ignore, "use": use, "bad": bad,
            "parse_restrictions": rng.random() < 0.7, "rename_end": rng.random() < 0.2,
            # restrictions handed over as "already parsed" may come in any key order and may name only some species
            "preparsed": rng.choice([None, "shuffled", "shuffled", "subset"]), "preparsed_seed": rng.randrange(2 ** 31)}


def abbreviate(trace):
    t = {k: v for k, v in trace.items() if k in ("mode", "restraints", "ignore_h", "deform", "lens1", "lens2", "restr", "ignore",
                                                "use", "bad", "with_end", "present")}
    if "start" in trace:
        t["n_start"], t["n_end"] = len(trace["start"]["positions"]), len(trace["end"]["positions"])
    return t


OPS_REMOVABLE = False


def simplify(trace):
    if trace["mode"] == "align" and trace["restraints"]:
        for i in range(len(trace["restraints"])):
            t = dict(trace)
            t["restraints"] = trace["restraints"][:i] + trace["restraints"][i + 1:]
            yield t


# --------------------------------------------------------------------------

def execute(trace, ctx):
    mode = trace["mode"]
    if mode == "align":
        return exec_align(trace, ctx)
    if mode == "guess_all":
        return exec_guess_all(trace, ctx)
    if mode == "guess_protein":
        return exec_guess_protein(trace, ctx)
    return exec_manager(trace, ctx)


def exec_align(trace, ctx):
    shared = {}
    _align_once(trace, ctx, shared)
    if trace.get("twice") and trace.get("guess") is None and trace["restraints"]:
        # the SAME list object is handed to a second alignment of the same pair (a script that aligns, looks, aligns again):
        # it must designate the same atoms again
        ctx.probe("same_restraint_list_object_used_twice")
        _align_once(trace, ctx, shared, second=True)


def _align_once(trace, ctx, shared, second=False):
    import gaddlemaps._alignment as A
    from gaddlemaps import Alignment
    start = gen.make_molecule(trace["start"])
    end = gen.make_molecule(trace["end"])
    ns, ne = len(start), len(end)
    start_fixed = ns >= ne
    calls = []

    def stub(mol1_positions, mol2_positions, mol2_com, sigma_scale, n_steps, restriction, mol2_bonds_info,
             displacement_module, sim_type, *extra, **kw):
        calls.append({"mol1": np.array(mol1_positions, dtype=float, copy=True), "mol2": np.array(mol2_positions, dtype=float, copy=True),
                      "restriction": [tuple(int(x) for x in r) for r in restriction], "sim_type": tuple(sim_type),
                      "n_steps": n_steps, "bonds": mol2_bonds_info})
        return np.array(mol2_positions, copy=True)

    if trace.get("reuse"):
        ru = trace["reuse"]
        ali = Alignment(gen.make_molecule(ru["start"]), gen.make_molecule(ru["end"]))
        old_sf0 = Alignment.STEPS_FACTOR
        Alignment.STEPS_FACTOR = 1
        try:
            with patched(A, "minimize_molecules", lambda m1, m2, *a, **k: np.array(m2, copy=True)):
                ali.align_molecules(restrictions=[(0, 0)], ignore_hydrogens=ru["ignore_h"])
        except Exception:
            pass
        finally:
            Alignment.STEPS_FACTOR = old_sf0
        ali.start = None
        ali.end = None
        ali.start = start
        ali.end = end
        ctx.probe("alignment_object_reused_for_another_pair")
    else:
        ali = Alignment(start, end)
    if "restr" not in shared:
        shared["restr"] = [tuple(r) if trace["as_tuples"] else list(r) for r in trace["restraints"]]
        if trace["restraints"] and len(trace["restraints"]) % 3 == 2:
            # indices taken from arrays (np.argwhere, np.argmin): numpy integers
            shared["restr"] = [(np.int64(r[0]), np.int64(r[1])) for r in trace["restraints"]]
            ctx.probe("restraint_indices_as_numpy_integers")
    restr = shared["restr"]
    given = [tuple(r) for r in trace["restraints"]]
    g = trace.get("guess")
    kwargs = {}
    if g is not None:
        # nothing is given: the pairs that must reach the optimiser are the guesser's (start index, end index) pairs --
        # judged here against the clauses of the statement -- or none at all when guessing is switched off
        restr = None
        given = []
        if g.get("homopolymer"):
            ctx.probe("homopolymer_residue_names")
        if g["auto"] and g.get("unequal"):
            # unequal residue counts: the alignment must refuse (whatever error), and the optimiser must not be reached
            if not g["omit_flag"]:
                kwargs["auto_guess_protein_restrictions"] = True
            with patched(A, "minimize_molecules", stub):
                try:
                    ali.align_molecules(restrictions=None, deformation_types=None if trace["deform"] is None else tuple(trace["deform"]),
                                        ignore_hydrogens=trace["ignore_h"], **kwargs)
                except Exception:
                    ctx.fault("unequal_residue_counts_refused")
                    ctx.op("align", "unequal-refused")
                    ctx.nontrivial = True
                    return
            ctx.violate(P, "guess-unequal-residue-counts-accepted",
                        f"molecules with {len(ali.start.residues)} and {len(ali.end.residues)} residues were aligned with "
                        f"automatically guessed restraints instead of being refused"
                        f"{' (all residues share one name)' if g.get('homopolymer') else ''}")
            return
        if g["auto"]:
            from gaddlemaps import guess_protein_restrains
            try:
                given = [tuple(int(x) for x in pr_) for pr_ in guess_protein_restrains(ali.start, ali.end)]
            except Exception as e:
                ctx.violate(P, "guess-raised", f"guess_protein_restrains raised {type(e).__name__}: {e} on two molecules with the "
                                               f"same residue names")
                return
            groups = []
            o1 = o2 = 0
            for r1, r2 in zip(ali.start.residues, ali.end.residues):
                groups.append((range(o1, o1 + len(r1)), range(o2, o2 + len(r2))))
                o1 += len(r1)
                o2 += len(r2)
            if not check_pairs(ctx, given, ns, ne, groups, "guessed through the alignment"):
                return
            ctx.probe("restraints_guessed_by_the_alignment")
            if not (g["omit_flag"]):
                kwargs["auto_guess_protein_restrictions"] = True
        else:
            kwargs["auto_guess_protein_restrictions"] = False
            ctx.probe("guessing_switched_off")
    old_sf = Alignment.STEPS_FACTOR
    Alignment.STEPS_FACTOR = 1
    try:
        with patched(A, "minimize_molecules", stub):
            try:
                ali.align_molecules(restrictions=restr, deformation_types=None if trace["deform"] is None else tuple(trace["deform"]),
                                    ignore_hydrogens=trace["ignore_h"], **kwargs)
            except Exception as e:
                ctx.op("align", "raised")
                ctx.violate(P, "alignment-raised", f"align_molecules raised {type(e).__name__}: {e}", key=type(e).__name__)
                return
    finally:
        Alignment.STEPS_FACTOR = old_sf
    ctx.steps += 1
    if len(calls) != 1:
        ctx.op("align", f"{len(calls)}-optimiser-calls")
        ctx.violate(P, "optimiser-calls", f"the optimiser was entered {len(calls)} times")
        return
    call = calls[0]
    fixed, mobile = (ali.start, ali.end) if start_fixed else (ali.end, ali.start)
    fpos = np.array(fixed.atoms_positions)
    mpos = np.array(mobile.atoms_positions)
    import re as _re
    felem = []
    for a in fixed:
        # (the documented rule, evaluated here: the element is the first run of letters of the atom name)
        runs = _re.findall(r"[A-Za-z]+", a.name)
        felem.append(runs[0] if runs else "")
    if any(_re.match(r"\d", a.name) and e == "H" for a, e in zip(fixed, felem)):
        ctx.probe("hydrogen_named_number_first")
    ctx.nontrivial = True
    # the mobile array is the mobile molecule, atom by atom
    if call["mol2"].shape != mpos.shape or not np.array_equal(call["mol2"], mpos):
        ctx.violate(P, "mobile-array", "the mobile coordinates given to the optimiser are not the smaller molecule's atoms in order")
    # expected list of designated atom pairs, by coordinates
    expected = []
    dropped = 0
    for (i, j) in given:
        fi, mj = (i, j) if start_fixed else (j, i)
        if trace["ignore_h"] and felem[fi] == "H":
            dropped += 1
            continue
        expected.append((fi, mj))
    if dropped:
        ctx.probe("restraint_dropped_with_hydrogen")
    if not start_fixed and given:
        ctx.probe("role_swap_with_restraints")
    if trace["ignore_h"] and any(e == "H" for e in felem) and expected:
        ctx.probe("reindexing_with_restraints")
    got = call["restriction"]
    if len(got) != len(expected):
        ctx.violate(P, "restraint-count", f"{len(given)} restraints given, {len(expected)} should reach the optimiser "
                                          f"(hydrogen filter {'on' if trace['ignore_h'] else 'off'}), {len(got)} did")
        ctx.op("align", "count-mismatch")
        return
    for k, ((gfi, gmj), (fi, mj)) in enumerate(zip(got, expected)):
        if not (0 <= gfi < len(call["mol1"])) or not (0 <= gmj < len(call["mol2"])):
            ctx.violate(P, "restraint-out-of-range", f"restraint {k} = ({gfi}, {gmj}) is outside the arrays given to the optimiser")
            break
        if not np.array_equal(call["mol1"][gfi], fpos[fi]):
            ctx.violate(P, "wrong-fixed-atom", f"restraint {k}: the user designated atom {fi} of the fixed molecule "
                                               f"({'start' if start_fixed else 'end'}), the optimiser's row {gfi} is another atom "
                                               f"(hydrogen filter {'on' if trace['ignore_h'] else 'off'})",
                        key=("swap" if not start_fixed else "noswap") + ("+H" if trace["ignore_h"] else ""))
            break
        if gmj != mj or not np.array_equal(call["mol2"][gmj], mpos[mj]):
            ctx.violate(P, "wrong-mobile-atom", f"restraint {k}: the user designated atom {mj} of the mobile molecule, the "
                                                f"optimiser got index {gmj}", key="swap" if not start_fixed else "noswap")
            break
    # the fixed array is the (filtered) fixed molecule, in order
    want_rows = [p for p, e in zip(fpos, felem) if not (trace["ignore_h"] and e == "H")]
    if len(want_rows) != len(call["mol1"]) or any(not np.array_equal(a, b) for a, b in zip(want_rows, call["mol1"])):
        ctx.violate(P, "fixed-array", "the fixed coordinates given to the optimiser are not the larger molecule's "
                                      f"{'non-hydrogen ' if trace['ignore_h'] else ''}atoms in order")
    ctx.op("align", ("swap" if not start_fixed else "noswap") + ("+H" if trace["ignore_h"] else "") + f":{len(expected)}/{len(given)}")
    ctx.sig.append((ns, ne, tuple(felem.count(x) for x in ("H",)), tuple(given)))


def check_pairs(ctx, pairs, n1, n2, groups, label):
    """groups: list of (range1, range2) residue blocks; pairs must pair same-position blocks only."""
    pairs = [tuple(p) for p in pairs]
    block1 = {}
    block2 = {}
    for b, (r1, r2) in enumerate(groups):
        for i in r1:
            block1[i] = b
        for j in r2:
            block2[j] = b
    seen1, seen2 = set(), set()
    for (i, j) in pairs:
        if not (isinstance(i, (int, np.integer)) and isinstance(j, (int, np.integer))) or not (0 <= i < n1 and 0 <= j < n2):
            ctx.violate(P, "guess-out-of-range", f"{label}: pair ({i}, {j}) outside 0..{n1 - 1} x 0..{n2 - 1}")
            return False
        if block1[i] != block2[j]:
            ctx.violate(P, "guess-crosses-residues", f"{label}: pair ({i}, {j}) joins residue {block1[i]} with residue {block2[j]}")
            return False
        seen1.add(i)
        seen2.add(j)
    if len(seen1) != n1 or len(seen2) != n2:
        ctx.violate(P, "guess-atom-without-partner", f"{label}: atoms without partner: first {sorted(set(range(n1)) - seen1)[:5]} "
                                                     f"second {sorted(set(range(n2)) - seen2)[:5]}")
        return False
    # order preserved: partners never cross
    for (i1, j1) in pairs:
        for (i2, j2) in pairs:
            if i1 < i2 and j1 > j2:
                ctx.violate(P, "guess-order", f"{label}: pairs ({i1}, {j1}) and ({i2}, {j2}) cross")
                return False
    return True


def _residue(n, resid=1, resname="RES", prefix="C"):
    from gaddlemaps.components import AtomGro, Residue
    return Residue([AtomGro([resid, resname, f"{prefix}{i}", i + 1, 0.1 * i, 0.0, 0.0]) for i in range(n)])


def exec_guess_all(trace, ctx):
    from gaddlemaps import guess_residue_restrains
    n_checked = 0
    for l1 in range(1, 41):
        r1 = _residue(l1)
        for l2 in range(1, 41):
            r2 = _residue(l2, prefix="N")
            for off1, off2 in ((0, 0), (7, 3), (3, 7), (0, 11)):
                try:
                    pairs = guess_residue_restrains(r1, r2, off1, off2)
                except Exception as e:
                    ctx.violate(P, "guess-raised", f"guess_residue_restrains({l1}, {l2}) raised {type(e).__name__}: {e}")
                    return
                shifted = [(i - off1, j - off2) for i, j in pairs]
                if not check_pairs(ctx, shifted, l1, l2, [(range(l1), range(l2))], f"residue lengths {l1} x {l2} offsets {off1},{off2}"):
                    return
                n_checked += 1
    ctx.steps += n_checked
    ctx.counters["residue_length_pairs"] += n_checked
    ctx.probe("all_1600_length_pairs")
    ctx.nontrivial = True
    ctx.op("guess_all", "ok")


def exec_guess_protein(trace, ctx):
    import random as _r
    from gaddlemaps import guess_protein_restrains
    rng = _r.Random(trace["seed"])

    def mol(lens, tag):
        names, resnames, resids = [], [], []
        for r, L in enumerate(lens):
            for i in range(L):
                names.append(f"{tag}{len(names)}")
                base = "R%02d" % r
                resnames.append(base if not trace["similar_names"] or tag == "C" else base + "X")
                resids.append(r + 1)
        n = len(names)
        spec = {"name": "PROT", "atom_names": names, "resnames": resnames, "resids": resids,
                "edges": [[i, i + 1] for i in range(n - 1)], "positions": [[0.1 * i, rng.random(), rng.random()] for i in range(n)]}
        return gen.make_molecule(spec)

    m1, m2 = mol(trace["lens1"], "C"), mol(trace["lens2"], "N")
    same = len(trace["lens1"]) == len(trace["lens2"])
    try:
        pairs = guess_protein_restrains(m1, m2)
    except Exception as e:
        if same:
            ctx.violate(P, "guess-raised", f"guess_protein_restrains raised {type(e).__name__}: {e} for residue lengths "
                                           f"{trace['lens1']} / {trace['lens2']}")
        else:
            ctx.fault("unequal_residue_counts_refused")
        ctx.op("guess_protein", "raised")
        ctx.nontrivial = True
        return
    if not same:
        ctx.violate(P, "guess-unequal-residue-counts-accepted", f"molecules with {len(trace['lens1'])} and {len(trace['lens2'])} "
                                                                f"residues were paired instead of refused")
        return
    groups = []
    o1 = o2 = 0
    for a, b in zip(trace["lens1"], trace["lens2"]):
        groups.append((range(o1, o1 + a), range(o2, o2 + b)))
        o1 += a
        o2 += b
    check_pairs(ctx, pairs, o1, o2, groups, f"protein {trace['lens1']} / {trace['lens2']}")
    ctx.steps += 1
    ctx.nontrivial = True
    ctx.op("guess_protein", "ok")
    ctx.sig.append((tuple(trace["lens1"]), tuple(trace["lens2"])))


def _retry_after_rejection(trace, ctx, manager, Alignment, species, names_with_end):
    """The same manager after a rejected call: optionally one more species becomes alignable, then a valid call with options
    for every alignable species; each option must reach its own species' alignment."""
    names_with_end = list(names_with_end)
    late = [s_ for s_ in trace["present"] if s_ not in trace["with_end"]]
    if late and trace["bad"].get("late_species"):
        s_ = late[0]
        e = gen.mol_spec(__import__("random").Random(s_ + 17), species[s_]["name"], 3, p_hydrogen=0.0)
        manager.add_end_molecule(gen.make_molecule(e))
        names_with_end.append(species[s_]["name"])
        ctx.probe("end_molecule_added_after_a_rejected_call")
    restr = {nm: [(0, 0)] for nm in names_with_end}
    deform = {nm: (0, 1) if k_ % 2 else (0,) for k_, nm in enumerate(names_with_end)}
    ignore = {nm: bool(k_ % 2) for k_, nm in enumerate(names_with_end)}
    calls = []

    def rec(self, restrictions=None, deformation_types=None, ignore_hydrogens=True, *a, **kw):
        calls.append((self, restrictions, deformation_types, ignore_hydrogens))
    with patched(Alignment, "align_molecules", rec):
        try:
            manager.align_molecules(restr, deform, ignore)
        except Exception as e:
            ctx.violate(P, "manager-raised", f"a valid call AFTER a rejected one raised {type(e).__name__}: {e} (alignable species: "
                                             f"{sorted(names_with_end)})", key="after-rejection")
            return
    got = {}
    for (self_ali, r, dfm, ign) in calls:
        owner = [n for n, a in manager.molecule_correspondence.items() if a is self_ali]
        if len(owner) != 1:
            ctx.violate(P, "unknown-alignment-called", "an alignment that is not one of the manager's was run (after a rejected call)")
            return
        got[owner[0]] = (None if r is None else [tuple(x) for x in r], None if dfm is None else tuple(dfm), ign)
    want = {nm: ([(0, 0)], deform[nm], ignore[nm]) for nm in names_with_end}
    if got != want:
        ctx.violate(P, "aligned-species", f"after a rejected call the valid call reached {got}; expected {want}", key="after-rejection")
    ctx.probe("valid_call_after_rejected_call")


def exec_manager(trace, ctx):
    from gaddlemaps import Manager, Alignment
    from gaddlemaps.components import System
    species = trace["species"]
    d = ctx.tmpdir()
    fgro = os.path.join(d, "system.gro")
    with open(fgro, "w") as f:
        f.write(trace["text"])
    itps = []
    for s in trace["present"]:
        p = os.path.join(d, f"sp{s}.itp")
        with open(p, "w") as f:
            f.write(gen.itp_text(species[s]))
        itps.append(p)
    manager = Manager.from_files(fgro, *itps)
    for k_, s in enumerate(trace["with_end"]):
        if trace.get("rename_end") and k_ == 0:
            # the documented manual route: the end molecule carries another moleculetype name than the species it maps
            e_ = dict(trace["ends"][str(s)], name=species[s]["name"] + "X")
            manager.molecule_correspondence[species[s]["name"]].end = gen.make_molecule(e_)
            ctx.probe("end_molecule_of_another_name")
        else:
            manager.add_end_molecule(gen.make_molecule(trace["ends"][str(s)]))
    names_with_end = [species[s]["name"] for s in trace["with_end"]]
    restr = {k: [tuple(x) for x in v] for k, v in trace["restr"].items()} if trace["use"]["restr"] else None
    deform = {k: tuple(v) for k, v in trace["deform"].items()} if trace["use"]["deform"] else None
    ignore = dict(trace["ignore"]) if trace["use"]["ignore"] else None
    bad = trace["bad"]
    if bad:
        k, t = bad["kind"], bad["target"]
        if k == "unknown_restr":
            restr = dict(restr or {})
            restr["NOPE"] = [(0, 0)]
        elif k == "unknown_deform":
            deform = dict(deform or {})
            deform["NOPE"] = (0,)
        elif k == "unknown_ignore":
            ignore = dict(ignore or {})
            ignore["NOPE"] = True
        elif k in ("fragment_restr", "fragment_deform", "fragment_ignore"):
            frag = bad.get("fragment", "NOPE")
            if k == "fragment_restr":
                restr = dict(restr or {})
                restr[frag] = [(0, 0)]
            elif k == "fragment_deform":
                deform = dict(deform or {})
                deform[frag] = (0,)
            else:
                ignore = dict(ignore or {})
                ignore[frag] = True
        elif k == "species_without_end":
            which = bad["other"]
            ignore = dict(ignore or {})
            ignore[which] = True
        elif k == "tuple_len":
            restr = dict(restr or {})
            restr[t] = [(0, 0, 0)]
        elif k == "index_range_start":
            restr = dict(restr or {})
            restr[t] = [(10 ** 6, 0)]
        elif k == "index_range_end":
            restr = dict(restr or {})
            restr[t] = [(0, 10 ** 6)]
        elif k in ("index_boundary_start", "index_boundary_end"):
            # the first index that does not exist (the number of atoms)
            sp_i = next(s_ for s_ in trace["with_end"] if species[s_]["name"] == t)
            n_s, n_e = len(species[sp_i]["atom_names"]), len(trace["ends"][str(sp_i)]["positions"])
            restr = dict(restr or {})
            restr[t] = [(n_s, 0)] if k == "index_boundary_start" else [(0, n_e)]
        elif k == "deform_not_sequence":
            deform = dict(deform or {})
            deform[t] = 5
        elif k == "deform_too_long":
            deform = dict(deform or {})
            deform[t] = (0, 1, 2, 0)
        elif k == "ignore_not_bool":
            ignore = dict(ignore or {})
            ignore[t] = "yes"
    calls = []

    def rec(self, restrictions=None, deformation_types=None, ignore_hydrogens=True, *a, **kw):
        calls.append((self, restrictions, deformation_types, ignore_hydrogens))

    pr = trace["parse_restrictions"] or restr is None or bool(bad)
    if not pr:
        # the documented way to skip parsing: hand over restrictions that were parsed before
        restr = manager.parse_restrictions(restr)
        ctx.probe("pre_parsed_restrictions")
        if trace.get("preparsed") and len(restr) > 1:
            import random as _r
            r2 = _r.Random(trace.get("preparsed_seed", 0))
            items = list(restr.items())
            r2.shuffle(items)
            if trace["preparsed"] == "subset":
                items = items[:r2.randint(1, len(items) - 1)]
                ctx.probe("pre_parsed_subset")
            if [k for k, _ in items] != list(restr)[:len(items)]:
                ctx.probe("pre_parsed_other_key_order")
            restr = dict(items)
    with patched(Alignment, "align_molecules", rec):
        try:
            manager.align_molecules(restr, deform, ignore, parse_restrictions=pr)
            raised = None
        except Exception as e:
            raised = e
    ctx.steps += 1
    ctx.nontrivial = True
    if bad and bad["kind"] == "species_without_end" and raised is None:
        # an option for a species the system KNOWS but that has no end molecule: the statement only promises rejection of
        # unknown names; accepted, it must simply reach nobody (the routing clauses below)
        ctx.probe("option_for_species_without_end_accepted")
        bad = None
    if bad and pr:
        if raised is None:
            ctx.violate(P, "malformed-option-accepted", f"option error '{bad['kind']}' was not rejected", key=bad["kind"])
        elif calls:
            ctx.violate(P, "rejected-after-alignment-started", f"option error '{bad['kind']}' was rejected only after "
                                                               f"{len(calls)} alignment(s) had run", key=bad["kind"])
        else:
            ctx.fault("malformed_option_rejected:" + bad["kind"])
        ctx.op("manager", "bad:" + bad["kind"])
        if raised is not None and not calls and bad.get("retry"):
            _retry_after_rejection(trace, ctx, manager, Alignment, species, names_with_end)
        return
    if bad and not pr:
        # restrictions are declared as already parsed: only their validation is skipped
        if bad["kind"] in ("unknown_restr", "fragment_restr", "tuple_len", "index_range_start", "index_range_end",
                           "index_boundary_start", "index_boundary_end"):
            ctx.op("manager", "unparsed-bad")
            return
        if raised is None:
            ctx.violate(P, "malformed-option-accepted", f"option error '{bad['kind']}' was not rejected", key=bad["kind"])
        elif calls:
            ctx.violate(P, "rejected-after-alignment-started", f"option error '{bad['kind']}' rejected after alignments ran",
                        key=bad["kind"])
        ctx.op("manager", "bad:" + bad["kind"])
        return
    if raised is not None:
        ctx.violate(P, "manager-raised", f"Manager.align_molecules raised {type(raised).__name__}: {raised}")
        ctx.op("manager", "raised")
        return
    got_names = []
    for (self_ali, r, dfm, ign) in calls:
        owner = [n for n, a in manager.molecule_correspondence.items() if a is self_ali]
        if len(owner) != 1:
            ctx.violate(P, "unknown-alignment-called", "an alignment that is not one of the manager's was run")
            return
        nm = owner[0]
        got_names.append(nm)
        # ... and that alignment really holds this species' two molecules
        held = (getattr(self_ali.start, "name", None), getattr(self_ali.end, "name", None))
        if held[0] != nm or (held[1] != nm and not trace.get("rename_end")):
            ctx.violate(P, "alignment-holds-other-species", f"the alignment registered for species {nm} holds molecules named {held}")
            return
        want_r = None
        if restr is not None and nm in restr and restr[nm]:
            want_r = [tuple(x) for x in restr[nm]]
        want_d = None
        if deform is not None and nm in deform and deform[nm]:
            want_d = tuple(deform[nm])
        want_i = True if ignore is None or nm not in ignore else ignore[nm]
        got_r = None if r is None else [tuple(x) for x in r]
        if got_r != want_r:
            ctx.violate(P, "restraints-misrouted", f"species {nm}: alignment received restraints {got_r}, the user gave {want_r}",
                        key="restr")
        if (None if dfm is None else tuple(dfm)) != want_d:
            ctx.violate(P, "deformations-misrouted", f"species {nm}: alignment received deformation types {dfm}, user gave {want_d}",
                        key="deform")
        if ign is not want_i and ign != want_i:
            ctx.violate(P, "hydrogen-flag-misrouted", f"species {nm}: alignment received ignore_hydrogens={ign}, user gave {want_i}",
                        key="ignore")
    if not pr and trace.get("preparsed") == "subset":
        # which species are aligned when the pre-parsed dictionary names only some of them is not part of the property;
        # every alignment that does run must still have received its own species' options (checked above)
        if not set(got_names) <= set(names_with_end):
            ctx.violate(P, "aligned-species", f"alignments ran for {sorted(got_names)}, species with both resolutions: "
                                              f"{sorted(names_with_end)}")
    elif sorted(got_names) != sorted(names_with_end):
        ctx.violate(P, "aligned-species", f"alignments ran for {sorted(got_names)}, species with both resolutions: "
                                          f"{sorted(names_with_end)}")
    ctx.op("manager", f"ok:{len(calls)}")
    ctx.sig.append((tuple(sorted((restr or {}).items())) if restr else None, tuple(sorted((deform or {}).items())) if deform else None,
                    tuple(sorted((ignore or {}).items())) if ignore else None))
    if len(calls) > 1:
        ctx.probe("several_species_routed")
