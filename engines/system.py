"""Engine `system` (C11): System recognition under scheduler-chosen topology load orders.

A coordinate file is assembled from whole molecules of a few species (distinct residue kinds)
plus solvent residues.  The history is the ORDER in which topologies are loaded, with observers
(len, composition, indexing incl. negative, slicing, iteration) executed between loads and failing
loads (absent species, duplicate load, same signature with other atom names) injected anywhere.
After every step all observers must agree with the instance list derived from the file."""
import os
from collections import Counter

import numpy as np

from sim import gen

NAME = "system"
P = "C11"


def gen_world(rng, tier):
    n_species = rng.randint(1, 4)
    used = set()
    species = []

    def new_kind(prefix):
        for _ in range(100):
            name = prefix + rng.choice("ABCDEFGH") + rng.choice(["", "1", "X"])
            size = rng.randint(1, 6)
            if (name, size) not in used and not any(name == u[0] for u in sorted(used) if rng.random() < 0.7):
                used.add((name, size))
                return (name, size)
        raise RuntimeError("no kind")

    for s in range(n_species):
        n_kinds = rng.choice([1, 1, 2, 3])
        kinds = [new_kind("R") for _ in range(n_kinds)]
        if rng.random() < 0.2 and len(species) == 0 and n_kinds == 1:
            # same residue name as another kind, different size
            pass
        length = rng.randint(1, 3)
        seq = [kinds[rng.randrange(n_kinds)] for _ in range(length)]
        if rng.random() < 0.3 and length >= 2:
            seq[1] = seq[0]                      # repeated residue inside the species
        names, resnames, resids = [], [], []
        for r, (kn, size) in enumerate(seq):
            for i in range(size):
                names.append(rng.choice("CNOSP") + "%d" % (len(names) + 1))
                resnames.append(kn)
                resids.append(r + 1)
        if rng.random() < 0.2:
            # a symmetric residue: a later atom carries the same name as the residue's first atom (CA CB CA ...)
            r_ = rng.randrange(len(seq))
            st_ = sum(k[1] for k in seq[:r_])
            if seq[r_][1] >= 3:
                names[st_ + rng.randrange(2, seq[r_][1])] = names[st_]
        n = len(names)
        # atoms of equal residue kinds must carry equal names (they are the same residue kind in the file)
        first = {}
        for r, (kn, size) in enumerate(seq):
            start = sum(k[1] for k in seq[:r])
            if (kn, size) in first:
                f = first[(kn, size)]
                names[start:start + size] = names[f:f + size]
            else:
                first[(kn, size)] = start
        spec = {"name": "SP%d" % s, "atom_names": names, "resnames": resnames, "resids": resids,
                "edges": [list(e) for e in gen.random_tree(rng, n)], "seq": [list(k) for k in seq]}
        species.append(spec)
    # an equal-name-different-size pair across species (allowed: signatures stay distinct)
    solvent = [("SOL", 3, ["OW", "HW1", "HW2"]), ("NA", 1, ["NA"])]
    max_mol = 6 if tier == "quick" or rng.random() < 0.7 else 40
    n_mol = rng.randint(0, max_mol)
    large = rng.random() < (0.015 if tier == "quick" else 0.03)
    if large:
        n_mol = rng.randint(250, 700)           # "random longer systems": well over a thousand residues with the solvent
    items = []
    for _ in range(n_mol):
        items.append(("mol", rng.randrange(n_species)))
    for _ in range(rng.choice([0, 0, 1, 3, 6]) if not large else rng.randint(400, 1300)):
        items.insert(rng.randint(0, len(items)), ("sol", rng.randrange(2)))
    if not large and items and rng.random() < 0.025:
        # the first molecules of the file start around a power-of-two residue index (where chunked scans have their seams)
        prefix = rng.choice([255, 256, 1023, 1024, 1024, 2047]) + rng.randint(-2, 1)
        items = [("sol", 1)] * prefix + items
    if not items:
        items.append(("sol", 0))
    lines = []
    wide = rng.random() < 0.15
    instances = []     # expected molecules: (species index, names, positions, atomids, resids)
    resid, atomid = 1, 1
    share = rng.random() < 0.25       # numbering per complex: neighbouring residues of DIFFERENT names may carry one number
    prev_last_name = None
    for kind, idx in items:
        first_name = solvent[idx][0] if kind == "sol" else species[idx]["resnames"][0]
        if share and prev_last_name is not None and first_name != prev_last_name and resid > 1 and rng.random() < 0.6:
            resid -= 1
        prev_last_name = solvent[idx][0] if kind == "sol" else species[idx]["resnames"][-1]
        if kind == "sol":
            rn, size, an = solvent[idx]
            for i in range(size):
                p = [round(rng.uniform(0, 9), 3) for _ in range(3)]
                lines.append("%5d%-5s%5s%5d%8.3f%8.3f%8.3f" % (resid, rn, an[i], atomid, *p))
                atomid += 1
            resid += 1
        else:
            sp = species[idx]
            n = len(sp["atom_names"])
            pos = [[round(rng.uniform(0, 9), 3) for _ in range(3)] for _ in range(n)]
            if wide and rng.random() < 0.4:
                # a molecule far outside the box: values that fill their eight columns (no blank before them)
                pos = [[round(rng.choice([rng.uniform(1000, 9999), -rng.uniform(100, 999)]), 3) if rng.random() < 0.6 else c_
                        for c_ in p_] for p_ in pos]
            ls, nres = gen.gro_atom_lines(sp, pos, resid, atomid)
            lines += ls
            instances.append({"species": idx, "positions": pos, "atomids": list(range(atomid, atomid + n)),
                              "resids": list(range(resid, resid + nres))})
            resid += nres
            atomid += n
    if rng.random() < 0.2:
        # a trajectory frame: every atom line carries velocity columns
        vel = [[round(rng.uniform(-3, 3), 4) for _ in range(3)] for _ in lines]
        lines = [l + "%8.4f%8.4f%8.4f" % tuple(v) for l, v in zip(lines, vel)]
        for inst in instances:
            inst["velocities"] = [vel[a - 1] for a in inst["atomids"]]
    text = gen.gro_text("system " + str(rng.randrange(1000)), lines, [10.0, 10.0, 10.0])
    return species, text, instances, large


def generate(rng, tier, focus):
    species, text, instances, large = gen_world(rng, tier)
    present = sorted({i["species"] for i in instances})
    order = list(present)
    rng.shuffle(order)
    if rng.random() < 0.3 and order:
        order = order[:rng.randint(1, len(order))]        # only a subset is loaded
    ops = []

    def observers():
        for _ in range(rng.randint(0, 3) if not large else rng.randint(0, 1)):
            c = rng.random()
            if large:
                c = 0.3 + 0.7 * c          # no full observation between the loads of a large system (one at the end)
            if c < 0.3:
                ops.append({"op": "observe_all"})
            elif c < 0.55:
                ops.append({"op": "index", "rel": rng.uniform(-1.3, 1.3)})
            elif c < 0.8:
                ops.append({"op": "slice", "a": rng.choice([None, rng.uniform(-1.2, 1.2)]), "b": rng.choice([None, rng.uniform(-1.2, 1.2)]),
                            "step": rng.choice([None, 1, 2, -1, -2, 3])})
            else:
                ops.append({"op": "iterate"})
        # live iterators over the system, advanced one molecule at a time between the other accesses (they share the
        # system's single file handle with every index / slice / len / second iterator)
        for _ in range(rng.choice([0, 0, 1, 2, 4])):
            ops.append({"op": rng.choice(["iter_new", "iter_step", "iter_step", "iter_step"]), "pick": rng.randrange(1000)})
            if rng.random() < 0.5:
                ops.append({"op": "index", "rel": rng.uniform(-1.0, 0.99)})

    def failing():
        c = rng.random()
        absent = [i for i in range(len(species)) if i not in present]
        if c < 0.35 and absent:
            ops.append({"op": "load_fail", "kind": "absent", "species": rng.choice(absent)})
        elif c < 0.55:
            ops.append({"op": "load_fail", "kind": "unrelated"})
        elif c < 0.7:
            ops.append({"op": "load_fail", "kind": "duplicate"})
        elif c < 0.85 and present:
            # every residue kind of the topology occurs in the file, but never as this run of residues
            ops.append({"op": "load_fail", "kind": "no_such_run", "species": rng.choice(present),
                        "how": rng.choice(["reverse", "append", "double", "prepend"]), "pick": rng.randrange(1000)})
        else:
            ops.append({"op": "load_fail", "kind": "other_atom_names", "species": rng.choice(present) if present else 0})

    observers()
    for s in order:
        if rng.random() < 0.35:
            failing()
            observers()
        # whether the harness looks right after the load is scheduled too: (load, load, observe) and
        # (load, observe, load, observe) exercise different invalidation paths of anything the system caches
        ops.append({"op": "load", "species": s, "via": rng.choice(["path", "path", "moltop", "open_file"]),
                    "observe": rng.random() < 0.6})
        if ops[-1]["observe"] or rng.random() < 0.5:
            observers()
    if rng.random() < 0.5:
        failing()
    if order and rng.random() < 0.3:
        # a SECOND System on the same file, its topologies loaded in another order, built somewhere in the middle of the
        # history and kept alive: what one system reports must not depend on the other's existence
        perm = list(order)
        rng.shuffle(perm)
        pos_ = rng.randint(0, len(ops))
        ops.insert(pos_, {"op": "second_system", "order": perm[:rng.randint(1, len(perm))]})
        ops.append({"op": "observe_all"})
        ops.append({"op": "observe_second"})
    ops.append({"op": "observe_all"})
    first = order[:rng.randint(0, len(order))] if rng.random() < 0.3 else []
    return {"species": species, "text": text, "instances": instances, "ctor_loads": first, "ops": ops}


def abbreviate(trace):
    return {"species": [{"name": s["name"], "seq": s["seq"]} for s in trace["species"]],
            "file_order": [i["species"] for i in trace["instances"]], "ctor_loads": trace["ctor_loads"],
            "ops": [{k: v for k, v in o.items()} for o in trace["ops"][:14]], "n_ops": len(trace["ops"])}


def mol_mismatch(mol, inst, species):
    sp = species[inst["species"]]
    try:
        if mol.name != sp["name"]:
            return f"molecule name {mol.name!r}, expected {sp['name']!r}"
        names = [a.name for a in mol]
        if names != sp["atom_names"]:
            return f"atom names {names} != topology {sp['atom_names']}"
        pos = np.array(mol.atoms_positions)
        if pos.shape != (len(names), 3) or not np.array_equal(pos, np.array(inst["positions"])):
            return "coordinates differ from the file's"
        if list(mol.atoms_ids) != inst["atomids"]:
            return f"atom numbers {list(mol.atoms_ids)} != file {inst['atomids']}"
        if list(mol.resids) != inst["resids"]:
            return f"residue numbers {list(mol.resids)} != file {inst['resids']}"
        if inst.get("velocities") is not None:
            v = mol.atoms_velocities
            if v is None or not np.array_equal(np.array(v), np.array(inst["velocities"])):
                return "velocities differ from the file's"
    except Exception as e:
        return f"not a usable molecule: {e!r}"
    return None


def _permuted_system(text):
    """The same atom lines with the residues (runs of equal residue number + name) in reversed order; None if there is only
    one residue.  Same number of atoms, same number of bytes."""
    ls = text.split("\n")
    n = int(ls[1])
    groups, prev = [], None
    for l in ls[2:2 + n]:
        key = (l[0:5], l[5:10])
        if key != prev:
            groups.append([])
            prev = key
        groups[-1].append(l)
    if len(groups) < 2:
        return None
    new = [l for g in reversed(groups) for l in g]
    return "\n".join(ls[:2] + new + ls[2 + n:])


def _file_residues(text):
    """[(residue name, atom count)] of the coordinate file, a new residue wherever number or name changes."""
    lines = text.split("\n")
    n = int(lines[1])
    out = []
    prev = None
    for l in lines[2:2 + n]:
        key = (l[0:5], l[5:10].strip())
        if key != prev:
            out.append([key[1], 0])
            prev = key
        out[-1][1] += 1
    return [tuple(x) for x in out]


def _no_such_run(species, op, text):
    """A topology built from residue kinds that all occur in the file, whose sequence of residues occurs nowhere in it
    (not even across molecule boundaries); None if the requested variant happens to occur."""
    base = species[op["species"]]
    kinds = {}
    for sp in species:
        pos = 0
        for kn, size in sp["seq"]:
            kinds.setdefault((kn, size), sp["atom_names"][pos:pos + size])
            pos += size
    seq = [tuple(k) for k in base["seq"]]
    file_res = _file_residues(text)
    in_file = [k for k in kinds if k in set(file_res)]
    if not in_file:
        return None
    extra = in_file[op["pick"] % len(in_file)]
    how = op["how"]
    if how == "reverse":
        new = seq[::-1]
    elif how == "append":
        new = seq + [extra]
    elif how == "prepend":
        new = [extra] + seq
    else:
        new = seq + seq
    if any(k not in set(file_res) for k in new):
        return None
    L = len(new)
    if any(file_res[i:i + L] == new for i in range(len(file_res) - L + 1)):
        return None
    names, resnames, resids = [], [], []
    for r, k in enumerate(new):
        names += list(kinds[k])
        resnames += [k[0]] * k[1]
        resids += [r + 1] * k[1]
    n = len(names)
    return {"name": "NORUN", "atom_names": names, "resnames": resnames, "resids": resids,
            "edges": [[i, i + 1] for i in range(n - 1)], "seq": [list(k) for k in new]}


def execute(trace, ctx):
    from gaddlemaps.components import System, MoleculeTop
    species = trace["species"]
    d = ctx.tmpdir()
    fgro = os.path.join(d, "system.gro")
    with open(fgro, "w") as f:
        f.write(trace["text"])
    itps = []
    for i, sp in enumerate(species):
        p = os.path.join(d, f"sp{i}.itp")
        with open(p, "w") as f:
            f.write(gen.itp_text(sp))
        itps.append(p)
    loaded = list(trace["ctor_loads"])
    if len(trace["ops"]) % 4 == 2 and len(trace["instances"]) >= 2:
        # the same path first held another frame of the same atoms in ANOTHER residue order (same atom count, same size in
        # bytes); it was loaded and read, then the file was re-written
        try:
            prev_text = _permuted_system(trace["text"])
            if prev_text is not None and len(prev_text) == len(trace["text"]):
                with open(fgro, "w") as f:
                    f.write(prev_text)
                old_ = System(fgro, *itps[:1])
                _ = len(old_), [m for m in old_][:2]
                del old_
                with open(fgro, "w") as f:
                    f.write(trace["text"])
                ctx.probe("path_held_another_system_of_the_same_size")
        except Exception:
            with open(fgro, "w") as f:
                f.write(trace["text"])
    try:
        system = System(fgro, *[itps[s] for s in loaded])
    except Exception as e:
        ctx.op("construct", "raised")
        ctx.violate(P, "construct-raised", f"System(file, {len(loaded)} topologies) raised {type(e).__name__}: {e}")
        return
    ctx.op("construct", str(len(loaded)))
    main_system = system

    def expected(ld=None):
        ld = loaded if ld is None else ld
        return [inst for inst in trace["instances"] if inst["species"] in ld]

    others = []      # [(System, species it has loaded)]

    def observe_all(label, system=None, ld=None):
        system = main_system if system is None else system
        ld_ = loaded if ld is None else ld
        exp = expected(ld_)
        n = len(exp)
        if len(system) != n:
            ctx.violate(P, "length", f"{label}: len = {len(system)}, expected {n} instances of the loaded species {sorted(ld_)}")
            return False
        comp = dict(system.composition)
        want = dict(Counter(species[i["species"]]["name"] for i in exp))
        if {k: v for k, v in comp.items() if v} != want:
            ctx.violate(P, "composition", f"{label}: composition {comp}, expected {want}")
            return False
        got = list(system)
        if len(got) != n:
            ctx.violate(P, "iteration-length", f"{label}: iteration gave {len(got)} molecules, len says {n}")
            return False
        for k, (g, w) in enumerate(zip(got, exp)):
            m = mol_mismatch(g, w, species)
            if m:
                ctx.violate(P, "iterated-molecule", f"{label}: molecule {k} of the iteration: {m}")
                return False
        ks = range(-n, n)
        if n > 200:       # large systems: the iteration above covers every molecule; indexing is sampled
            step = max(1, n // 40)
            ks = sorted(set(range(-n, -n + 4)) | set(range(-4, 4)) | set(range(n - 4, n)) | set(range(-n, n, step)))
        for k in ks:
            try:
                g = system[k]
            except Exception as e:
                ctx.violate(P, "index-raised", f"{label}: system[{k}] of {n} raised {type(e).__name__}: {e}")
                return False
            m = mol_mismatch(g, exp[k], species)
            if m:
                ctx.violate(P, "indexed-molecule", f"{label}: system[{k}]: {m}", key="neg" if k < 0 else "pos")
                return False
        for bad in (n, -n - 1):
            try:
                system[bad]
            except Exception:
                pass        # the property does not say which error an out-of-range index raises
            else:
                ctx.violate(P, "index-out-of-range-accepted", f"{label}: system[{bad}] of {n} returned a molecule")
        # contiguous, disjoint atom runs in file order
        last = 0
        for k, w in enumerate(exp):
            ids = list(got[k].atoms_ids)
            if ids != list(range(ids[0], ids[0] + len(ids))) or ids[0] <= last:
                ctx.violate(P, "not-contiguous", f"{label}: molecule {k} covers atoms {ids}")
                return False
            last = ids[-1]
        return True

    snapshot = None
    live = []        # [iterator, items delivered so far, expected list when it was created]
    held = []        # (molecule handed out by an index access, the instance it was, the index)

    def take_snapshot():
        return (len(system), dict(system.composition),
                [(m.name, tuple(m.atoms_ids), np.array(m.atoms_positions).tobytes()) for m in system])

    for i, op in enumerate(trace["ops"]):
        ctx.op_index = i
        ctx.steps += 1
        kind = op["op"]
        exp = expected()
        n = len(exp)
        try:
            if kind == "observe_all":
                observe_all(f"after loading {loaded}" + (" (a second System exists)" if others else ""))
                ctx.op(kind)
            elif kind == "second_system":
                try:
                    s2 = System(fgro, *[itps[k_] for k_ in op["order"]])
                except Exception as e:
                    ctx.violate(P, "construct-raised", f"a second System on the same file (topologies {op['order']}) raised "
                                                       f"{type(e).__name__}: {e}")
                    return
                others.append((s2, list(op["order"])))
                ctx.probe("second_system_on_the_same_file")
                ctx.op(kind)
            elif kind == "observe_second":
                for s2, ld2 in others:
                    observe_all(f"second System (loaded {ld2})", system=s2, ld=ld2)
                ctx.op(kind)
            elif kind == "iterate":
                got = list(system)
                if len(got) != n:
                    ctx.violate(P, "iteration-length", f"iteration gave {len(got)} molecules, expected {n} (loaded {loaded})")
                else:
                    for k, (g, w) in enumerate(zip(got, exp)):
                        m = mol_mismatch(g, w, species)
                        if m:
                            ctx.violate(P, "iterated-molecule", f"loaded {loaded}: molecule {k}: {m}")
                            break
                ctx.op(kind)
            elif kind == "index":
                k = int(round(op["rel"] * n))
                try:
                    g = system[k]
                except Exception as e:
                    if -n <= k < n:
                        ctx.violate(P, "index-error-in-range", f"system[{k}] of {n} raised {type(e).__name__}: {e} (loaded {loaded})")
                    ctx.op(kind, "out-of-range-error")
                    continue
                if not -n <= k < n:
                    ctx.violate(P, "index-out-of-range-accepted", f"system[{k}] of {n} returned a molecule")
                    continue
                m = mol_mismatch(g, exp[k], species)
                if m:
                    ctx.violate(P, "indexed-molecule", f"loaded {loaded}: system[{k}]: {m}", key="neg" if k < 0 else "pos")
                elif len(held) < 60:
                    held.append((g, exp[k], k))      # stays with the caller; looked at again when the history is over
                ctx.op(kind, "neg" if k < 0 else "pos")
            elif kind == "slice":
                a = None if op["a"] is None else int(round(op["a"] * n))
                b = None if op["b"] is None else int(round(op["b"] * n))
                got = system[a:b:op["step"]]
                want = exp[a:b:op["step"]]
                if len(got) != len(want):
                    ctx.violate(P, "slice-length", f"system[{a}:{b}:{op['step']}] gave {len(got)} molecules, expected {len(want)}")
                else:
                    for k, (g, w) in enumerate(zip(got, want)):
                        m = mol_mismatch(g, w, species)
                        if m:
                            ctx.violate(P, "sliced-molecule", f"system[{a}:{b}:{op['step']}] item {k}: {m}")
                            break
                ctx.op(kind, "neg" if (op["step"] or 1) < 0 else "pos")
            elif kind == "iter_new":
                if len(live) < 3:
                    live.append([iter(system), 0, list(exp)])
                ctx.op(kind)
            elif kind == "iter_step":
                if not live:
                    continue
                it = live[op["pick"] % len(live)]
                try:
                    g = next(it[0])
                except StopIteration:
                    if it[1] != len(it[2]):
                        ctx.violate(P, "iteration-length", f"a live iterator stopped after {it[1]} molecules, expected {len(it[2])}")
                    live.remove(it)
                    ctx.op(kind, "exhausted")
                    continue
                if it[1] >= len(it[2]):
                    ctx.violate(P, "iteration-length", f"a live iterator delivered more than the {len(it[2])} molecules present")
                    live.remove(it)
                    continue
                m = mol_mismatch(g, it[2][it[1]], species)
                if m:
                    ctx.violate(P, "iterated-molecule", f"live iterator, item {it[1]} (other accesses were made between its steps): {m}",
                                key="live")
                it[1] += 1
                ctx.probe("live_iterator_stepped_between_accesses")
                ctx.op(kind, "ok")
            elif kind == "load":
                s = op["species"]
                if s in loaded:
                    continue
                live.clear()      # what an iterator started before a load should deliver afterwards is not specified
                try:
                    if op["via"] == "moltop":
                        system.add_molecule_top(MoleculeTop(itps[s]))
                    elif op["via"] == "open_file":
                        with open(itps[s]) as fh:
                            system.add_ftop(fh)
                    else:
                        system.add_ftop(itps[s])
                except Exception as e:
                    ctx.op(kind, "raised")
                    ctx.violate(P, "load-raised", f"loading species {s} ({species[s]['seq']}) after {loaded} raised "
                                                  f"{type(e).__name__}: {e}", key=type(e).__name__)
                    return
                loaded.append(s)
                ctx.op(kind, str(len(loaded)))
                if len(loaded) > 1:
                    ctx.probe("second_or_later_load")
                if op.get("observe", True):
                    observe_all(f"after loading {loaded}")
                else:
                    ctx.probe("load_not_observed_at_once")
            elif kind == "load_fail":
                live.clear()
                before = take_snapshot()
                fk = op["kind"]
                path = None
                if fk == "absent":
                    path = itps[op["species"]]
                elif fk == "unrelated":
                    import gaddlemaps
                    path = gaddlemaps.DATA_FILES_PATH["BMIM_AA.itp"]
                elif fk == "duplicate":
                    if not loaded:
                        continue
                    path = itps[loaded[-1]]
                elif fk == "no_such_run":
                    cand = _no_such_run(species, op, trace["text"])
                    if cand is None:
                        continue
                    path = os.path.join(d, f"norun{i}.itp")
                    with open(path, "w") as f:
                        f.write(gen.itp_text(cand))
                    ctx.probe("topology_of_known_kinds_without_a_run")
                else:
                    sp = dict(species[op["species"]])
                    if op["species"] in loaded:
                        continue
                    sp["atom_names"] = ["Z" + a for a in sp["atom_names"]]
                    path = os.path.join(d, f"wrongnames{i}.itp")
                    with open(path, "w") as f:
                        f.write(gen.itp_text(sp))
                try:
                    system.add_ftop(path)
                except Exception as e:
                    ctx.op(kind, fk + ":" + type(e).__name__)
                    ctx.fault("rejected_load:" + fk)
                else:
                    ctx.op(kind, fk + ":accepted")
                    if fk == "duplicate":
                        # (whether a species whose runs are all taken still "has a matching run" is not said: a second load that
                        # changes nothing is in order, one that adds molecules is not)
                        ctx.probe("duplicate_load_accepted")
                        if take_snapshot() != before:
                            ctx.violate(P, "duplicate-load-changed-state", "loading a topology a second time changed what the "
                                                                           "system reports", key=fk)
                            return
                        continue
                    ctx.violate(P, "bad-topology-accepted", f"a topology of kind '{fk}' with no matching run was accepted",
                                key=fk)
                    return
                after = take_snapshot()
                if after != before:
                    ctx.violate(P, "failed-load-changed-state", f"a refused load ('{fk}') changed what the system reports")
                    return
        except Exception as e:
            import traceback
            ctx.op(kind, "raised")
            ctx.violate(P, "observer-raised", f"operation {op} raised {type(e).__name__}: {e}\n{traceback.format_exc()[-600:]}",
                        key=kind)
            return
    # molecules handed out earlier are the caller's: later accesses and loads must not have rewritten them
    for g, w, k in held:
        try:
            m = mol_mismatch(g, w, species)
        except Exception as e:
            m = f"raised {type(e).__name__}: {e}"
        if m:
            ctx.violate(P, "held-molecule-changed", f"the molecule returned earlier by system[{k}] no longer shows its run of the "
                                                    f"file after later accesses: {m}")
            break
    if held:
        ctx.probe("held_molecules_rechecked")
    ctx.nontrivial = True
