"""Engine `pbc` (C19): Residue.distance_to along seeded trajectories.

A pure function of (two points, a matrix): no schedule, no fault.  The harness is used in
its degenerate form -- seeded generation, closed-form oracle, replayable trace."""
import math

import numpy as np

from sim import gen

NAME = "pbc"
P = "C19"


def generate(rng, tier, focus):
    kind = rng.choice(["ortho", "ortho", "cubic", "triclinic"])
    if kind == "cubic":
        L = rng.uniform(0.5, 20)
        box = np.diag([L, L, L])
    elif kind == "ortho":
        box = np.diag([rng.uniform(0.5, 20) for _ in range(3)])
    else:
        d = [rng.uniform(0.5, 20) for _ in range(3)]
        box = np.diag(d)
        # gromacs-like lower-triangular skew, moderate
        box[1, 0] = rng.uniform(-0.45, 0.45) * d[0]
        box[2, 0] = rng.uniform(-0.45, 0.45) * d[0]
        box[2, 1] = rng.uniform(-0.45, 0.45) * d[1]
        if rng.random() < 0.3:  # general (non-triangular) non-singular box
            box[0, 1] = rng.uniform(-0.3, 0.3) * d[1]
            box[0, 2] = rng.uniform(-0.3, 0.3) * d[2]
        elif rng.random() < 0.3:
            # skew components of opposite sign that cancel exactly (the sum of all entries equals the trace)
            x = round(rng.uniform(0.1, 0.4) * d[0], 3)
            box[1, 0], box[2, 0], box[2, 1] = x, -x, 0.0
    scale = float(np.max(np.abs(box)))
    n1, n2 = rng.randint(1, 4), rng.randint(1, 4)
    far = rng.random() < 0.4
    c1 = np.array(gen.rvec(rng, scale * (3 if far else 0.5)))
    c2 = np.array(gen.rvec(rng, scale * (3 if far else 0.5)))
    res1 = [list(map(float, c1 + np.array(gen.rvec(rng, 0.2)))) for _ in range(n1)]
    res2 = [list(map(float, c2 + np.array(gen.rvec(rng, 0.2)))) for _ in range(n2)]
    ops = []
    for _ in range(rng.randint(3, 12)):
        c = rng.random()
        who = rng.randrange(2)
        if c < 0.45:
            ops.append({"op": "walk", "who": who, "d": gen.rvec(rng, rng.choice([0.05, 0.5, scale]))})
        elif c < 0.8:
            ops.append({"op": "jump", "who": who, "n": [rng.randint(-3, 3) for _ in range(3)]})
        elif c < 0.88:
            # almost a periodic image of the other body: a lattice shift (non-zero on every axis) plus a tiny offset
            ops.append({"op": "near_image", "who": who, "n": [rng.choice([-3, -2, -1, 1, 2, 3]) for _ in range(3)],
                        "off": [rng.choice([-1, 1]) * 10 ** rng.uniform(-7, -2.5) for _ in range(3)]})
        else:
            # put the second body almost half a box away from the first along one axis (near-tie side)
            ax = rng.randrange(3)
            ops.append({"op": "halfbox", "who": who, "axis": ax, "eps": rng.choice([-1, 1]) * rng.uniform(2e-6, 1e-3)})
    forms = {"point": rng.choice(["array", "array", "list", "tuple"]), "box": rng.choice(["array", "array", "lists", "int_array", "fortran", "fortran", "view"])}
    if forms["box"] == "int_array":
        if kind in ("ortho", "cubic"):
            box = np.diag([float(max(1, round(x))) for x in np.diag(box)])     # integer edges, handed over as an int array
        else:
            forms["box"] = "lists"
    if kind in ("ortho", "cubic") and forms["box"] != "int_array" and rng.random() < 0.2:
        # a rectangular box whose off-diagonal zeros are NEGATIVE zeros ("-0.00000" in a box line, -np.diag(-edges)): the
        # same box, number for number
        for i_ in range(3):
            for j_ in range(3):
                if i_ != j_ and rng.random() < 0.6:
                    box[i_, j_] = -0.0
    return {"box": box.tolist(), "kind": kind, "res1": res1, "res2": res2, "ops": ops,
            "point_arg": rng.random() < 0.3, "forms": forms}


def abbreviate(trace):
    return {"box": trace["box"], "kind": trace["kind"], "n_atoms": [len(trace["res1"]), len(trace["res2"])],
            "ops": trace["ops"][:6], "n_ops": len(trace["ops"])}


def simplify(trace):
    for key in ("res1", "res2"):
        if len(trace[key]) > 1:
            t = dict(trace)
            t[key] = trace[key][:1]
            yield t
    if trace.get("point_arg"):
        t = dict(trace)
        t["point_arg"] = False
        yield t


def _residue(pos, resid):
    from gaddlemaps.components import AtomGro, Residue
    return Residue([AtomGro([resid, "RES", f"C{i}", i + 1, *p]) for i, p in enumerate(pos)])


def _min_image_ortho(d, L):
    """Brute force per dimension over enough images (orthorhombic: dimensions separate)."""
    tot = 0.0
    shift = []
    for i in range(3):
        # every image within 4 box lengths of the nearest one (a window around the estimate, so that the cost does not
        # grow with the separation: code under test that corrupts its arguments can make separations astronomically large)
        if not math.isfinite(d[i]) or abs(d[i]) / L[i] > 1e12:
            return float("nan"), (0, 0, 0)
        n0 = -int(math.floor(d[i] / L[i] + 0.5))
        best = None
        for n in range(n0 - 4, n0 + 5):
            v = d[i] + n * L[i]
            if best is None or abs(v) < abs(best[0]):
                best = (v, n)
        tot += best[0] ** 2
        shift.append(best[1])
    return math.sqrt(tot), tuple(shift)


def execute(trace, ctx):
    if len(trace["ops"]) % 4 == 1 and not trace.get("_env"):
        import warnings
        ctx.probe("numpy_errors_raised_and_warnings_as_errors")
        with np.errstate(all="raise"), warnings.catch_warnings():
            warnings.simplefilter("error")
            return execute(dict(trace, _env=True), ctx)
    box = np.array(trace["box"], dtype=float)
    inv = np.linalg.inv(box)
    kind = trace["kind"]
    ortho = kind in ("ortho", "cubic")
    L = np.diag(box)
    r = [_residue(trace["res1"], 1), _residue(trace["res2"], 2)]
    if not ortho:
        ctx.probe("triclinic")

    def check(tag, last_jump=None):
        c0 = np.mean(np.array([a.position for a in r[0]]), axis=0)
        c1 = np.mean(np.array([a.position for a in r[1]]), axis=0)
        d = c1 - c0
        frac = d @ inv
        if np.any(np.abs(np.abs(frac - np.round(frac)) - 0.5) < 1e-6) or \
                (ortho and np.any(np.abs(np.abs(frac - np.round(frac)) - 0.5) * L < 1e-6)):
            ctx.op(tag, "skipped-tie")
            return
        scale = max(1.0, float(np.max(np.abs(box))), float(np.max(np.abs(c0))), float(np.max(np.abs(c1))))
        tol = 1e-9 * scale
        forms = trace.get("forms") or {}
        box_in = box.copy()
        if forms.get("box") == "lists":
            box_in = box.tolist()
            ctx.probe("box_as_nested_lists")
        elif forms.get("box") == "int_array":
            box_in = box.astype(np.int64)
            ctx.probe("box_as_integer_array")
        elif forms.get("box") == "fortran":
            box_in = np.asfortranarray(box)          # same values, column-major memory (a transposed view, a frame of a stack)
            ctx.probe("box_fortran_ordered")
        elif forms.get("box") == "view":
            big = np.zeros((6, 6))
            big[::2, ::2] = box
            box_in = big[::2, ::2]                    # a strided, non-contiguous view
            ctx.probe("box_non_contiguous_view")
        other = c1.copy() if trace.get("point_arg") else r[1]
        if trace.get("point_arg"):
            ctx.probe("point_argument")
            if forms.get("point") == "list":
                other = [float(x) for x in c1]
            elif forms.get("point") == "tuple":
                other = tuple(float(x) for x in c1)
        got = float(r[0].distance_to(other, box_vects=box_in))
        ctx.ev("dist", got)
        if not np.array_equal(np.asarray(box_in, dtype=float), box):
            ctx.violate(P, "box-argument-modified", "distance_to modified the caller's box matrix")
        if not math.isfinite(got):
            ctx.violate(P, "not-finite", f"periodic distance is {got}")
            return
        plain = float(np.linalg.norm(d))
        if np.max(np.abs(frac)) > 1.5:
            ctx.probe("far_outside")
        outcome = "ok"
        if ortho:
            want, shift = _min_image_ortho(d, L)
            if any(shift):
                ctx.probe("nonzero_image")
                ctx.nontrivial = True
            outcome = "img" + "".join(str(int(np.sign(s)) + 1) for s in shift)
            if not math.isfinite(want):
                ctx.op(tag, "separation-out-of-range")
                return got
            if abs(got - want) > tol:
                ctx.violate(P, "min-image", f"box diag {L.tolist()} separation {d.tolist()}: distance_to={got!r}, "
                                            f"minimum over images={want!r}", key="ortho")
            if got > plain + tol:
                ctx.violate(P, "exceeds-plain", f"periodic {got!r} > non-periodic {plain!r}")
        else:
            ctx.nontrivial = ctx.nontrivial or bool(np.any(np.round(frac) != 0))
            if np.any(np.round(frac) != 0):
                ctx.probe("nonzero_image")
        # symmetry
        back = float(r[1].distance_to(r[0], box_vects=(np.asfortranarray(box) if forms.get("box") == "fortran" else box.copy())))
        if abs(back - got) > tol:
            ctx.violate(P, "symmetry", f"d(a,b)={got!r} but d(b,a)={back!r} (box {box.tolist()})")
        # the same matrix in the OTHER role right afterwards: `box` handed over as an inverse box describes the box inv(box)
        if ortho and (trace.get("forms") or {}).get("point") != "array":
            as_inv = float(r[0].distance_to(other, box_vects=box.copy(), inv=True))
            direct = float(r[0].distance_to(other, box_vects=inv.copy()))
            if abs(as_inv - direct) > tol:
                ctx.violate(P, "inverse-flag", f"matrix M used as inverse box: {as_inv!r}; box inv(M) handed over directly: {direct!r}",
                            key="roles")
            ctx.probe("one_matrix_in_both_roles")
        # inverse flag
        inv_in = inv.copy()
        if forms.get("box") == "fortran":
            inv_in = np.asfortranarray(inv)
        gi = float(r[0].distance_to(other, box_vects=inv_in, inv=True))
        if not np.array_equal(np.asarray(inv_in), inv):
            ctx.violate(P, "box-argument-modified", "distance_to(..., inv=True) modified the caller's inverse-box matrix")
        ctx.probe("inv_flag")
        if abs(gi - got) > tol:
            ctx.violate(P, "inverse-flag", f"with box: {got!r}, with inverse box and inv=True: {gi!r}")
        # invariance under an explicit lattice shift of the argument (every non-singular box): the shifted point is computed
        # HERE (not by the library's move) and handed over as a bare point
        nvec = np.array([(1, -2, 3), (-3, 0, 1), (0, 2, -1), (2, 3, -3)][int(abs(d[0]) * 1e6) % 4], dtype=float)
        p_plain = float(r[0].distance_to(c1.copy(), box_vects=box.copy()))
        p_shift = float(r[0].distance_to(c1 + nvec @ box, box_vects=box.copy()))
        if abs(p_plain - got) > tol:
            ctx.violate(P, "point-vs-residue", f"distance to the residue {got!r}, to its geometric centre as a point {p_plain!r}")
        shift_scale = max(scale, 4 * float(np.max(np.abs(box))))
        if abs(p_shift - p_plain) > 1e-9 * shift_scale:
            ctx.violate(P, "lattice-shift", f"point shifted by {nvec.tolist()} box vectors: periodic distance {p_shift!r}, unshifted "
                                            f"{p_plain!r} (box {box.tolist()})", key="point")
        ctx.probe("lattice_shift_of_a_bare_point")
        ctx.op(tag, outcome)
        return got

    prev = check("init")
    for i, op in enumerate(trace["ops"]):
        ctx.op_index = i
        ctx.steps += 1
        who = op["who"]
        if op["op"] == "walk":
            r[who].move(np.array(op["d"]))
            prev = check("walk")
        elif op["op"] == "near_image":
            c0 = np.array(r[1 - who].geometric_center, dtype=float)
            r[who].move_to(c0 + np.array(op["off"]) + np.array(op["n"], dtype=float) @ box)
            ctx.probe("near_periodic_image")
            prev = check("near_image")
        elif op["op"] == "halfbox":
            c0 = r[1 - who].geometric_center
            target = c0.copy()
            target = target + (0.5 + op["eps"]) * box[op["axis"]]
            r[who].move_to(target)
            prev = check("halfbox")
        else:
            n = np.array(op["n"], dtype=float)
            before = prev
            r[who].move(n @ box)
            now = check("jump")
            if before is not None and now is not None:
                scale = max(1.0, float(np.max(np.abs(box))) * 4, float(np.max(np.abs(r[who].geometric_center))))
                if abs(now - before) > 1e-9 * scale:
                    ctx.violate(P, "lattice-shift", f"shift by {op['n']} box vectors changed the periodic distance "
                                                    f"from {before!r} to {now!r} (box {box.tolist()})")
            prev = now
