"""Engine `mc` (C06-C09, rotations of C17): the Monte-Carlo alignment under the random seam.

System under simulation: Alignment.align_molecules -> minimize_molecules -> the python MC loop,
with every stochastic decision coming from numpy's global stream, which the simulator owns
(seeded stream + per-run override script = "buggify").  Call-through monitors sit on every
component boundary the loop resolves at call time (Chi2Calculator, accept_metropolis,
move_mol_atom, find_atom_random_displ, rotation_matrix); a reference model of the loop's
bookkeeping is advanced from the observed events (C09); chi2 evaluations, single-atom moves
and rotation matrices are checked in situ (C08, C07, C17); the end state is checked for C06."""
import math
import os
import random as _random
import re

import numpy as np

from sim import gen
from sim.models import fast_chi2
from sim.seams import RandomSeam, patched, ExtraDraw

NAME = "mc"
NONDETERMINISM_IS_VIOLATION = ("C06",)


# --------------------------------------------------------------------------
# generation
# --------------------------------------------------------------------------

def _mol(rng, name, n, tree, p_h, origin, n_res=1):
    spec = gen.mol_spec(rng, name, n, n_res=n_res, tree_style=None, cyclic=0 if tree else rng.choice([0, 1, 2]),
                        p_hydrogen=p_h, spread=rng.choice([0.1, 0.15, 0.25]))
    if not tree and rng.random() < 0.3 and n >= 4:
        # forest with at least one bond
        edges = [e for e in spec["edges"] if rng.random() < 0.7] or spec["edges"][:1]
        spec["edges"] = edges
    pos = np.array(spec["positions"]) + np.array(origin)
    spec["positions"] = pos.tolist()
    return spec


SHIPPED_PAIRS = {"CUR": (("CUR_map.gro", "CUR_CG.itp"), ("CUR_AA.gro", "CUR_AA.itp")),
                 "VTE": (("VTE_map.gro", "vitamin_E_CG.itp"), ("VTE_AA.gro", "VTE_AA.itp")),
                 "BMIM": (("system_bmimbf4_cg.gro", "BMIM_CG.itp"), ("BMIM_AA.gro", "BMIM_AA.itp")),
                 "BF4": (("system_bmimbf4_cg.gro", "BF4_CG.itp"), ("BF4_AA.gro", "BF4_AA.itp"))}
_SHIPPED_CACHE = {}


def spec_from_molecule(mol):
    edges = sorted({tuple(sorted((a.index, b))) for a in mol.molecule_top for b in a.bonds})
    top = mol.molecule_top
    return {"name": mol.name, "atom_names": [a.name for a in top], "resnames": [a.resname for a in top],
            "resids": [a.resid for a in top], "edges": [list(e) for e in edges],
            "positions": [[float(x) for x in p] for p in mol.atoms_positions]}


def shipped_specs(name):
    """(start-resolution spec, end-resolution spec) of a shipped molecule pair, read once through the real parsers."""
    if name not in _SHIPPED_CACHE:
        import gaddlemaps
        from gaddlemaps.components import Molecule, System
        D = gaddlemaps.DATA_FILES_PATH
        (g1, t1), (g2, t2) = SHIPPED_PAIRS[name]
        if g1.startswith("system"):
            cg = System(D[g1], D[t1])[0]
        else:
            cg = Molecule.from_files(D[g1], D[t1])
        aa = Molecule.from_files(D[g2], D[t2])
        _SHIPPED_CACHE[name] = (spec_from_molecule(cg), spec_from_molecule(aa))
    a, b = _SHIPPED_CACHE[name]
    import copy
    return copy.deepcopy(a), copy.deepcopy(b)


def _marathon(rng, focus):
    """One-bead molecules far apart, translations only, tiny steps: a steadily improving search of ~1e5 iterations.
    Nothing in the rules of the search depends on how long it has been running."""
    sep = rng.choice([300.0, 500.0])
    start = {"name": "SPC", "atom_names": ["C1"], "resnames": ["SPC"], "resids": [1], "edges": [], "positions": [[0.0, 0.0, 0.0]]}
    end = {"name": "SPC", "atom_names": ["C1"], "resnames": ["SPC"], "resids": [1], "edges": [], "positions": [[sep, 0.0, 0.0]]}
    return {"focus": focus, "mode": "direct", "reassign": None, "start": start, "end": end, "restraints": [], "deform": [0],
            "auto_guess": None, "ignore_h": False, "steps_factor": 1, "sigma_scale": 0.5, "np_seed": rng.randrange(2 ** 32),
            "script": {"sites": {}, "seed": 0}, "n_steps": 30, "marathon": True, "displacement": 0.01}


def _big_mobile(rng, focus):
    """A mobile molecule of 65..140 atoms (a polymer bead chain, a lipid tail bundle): nothing in the rules of the search
    depends on the size of the molecule.  Direct drive, few steps."""
    n_mob = rng.choice([rng.randint(65, 70), rng.randint(71, 140), 128, 129])
    mob = _mol(rng, "SPC", n_mob, tree=True, p_h=0.0, origin=[0.0, 0.0, 0.0])
    if rng.random() < 0.5:
        mob["edges"] = [[i, i + 1] for i in range(n_mob - 1)]          # a plain chain: the restoring walk is as long as it gets
        pos = np.cumsum(np.array([np.array(gen.unit_vec(rng)) * 0.15 for _ in range(n_mob)]), axis=0)
        mob["positions"] = pos.tolist()
    n_fix = rng.randint(n_mob, n_mob + 8)
    fix = _mol(rng, "SPC", n_fix, tree=False, p_h=0.0, origin=gen.rvec(rng, 1.0))
    return {"focus": focus, "mode": "direct", "reassign": None, "start": fix, "end": mob, "restraints": [], "deform": rng.choice([[2], [0, 1, 2], [2, 0]]),
            "auto_guess": None, "ignore_h": False, "steps_factor": 1, "sigma_scale": 0.5, "np_seed": rng.randrange(2 ** 32),
            "script": {"sites": {}, "seed": 0}, "n_steps": rng.randint(5, 25), "big_mobile": True}


def generate(rng, tier, focus):
    if focus == "C09" and rng.random() < (0.0008 if tier == "quick" else 0.0004):
        return _marathon(rng, focus)
    if focus == "C09" and rng.random() < 0.004:
        return _big_mobile(rng, focus)
    if rng.random() < (0.015 if tier == "quick" else 0.04):
        name = rng.choice(sorted(SHIPPED_PAIRS))
        try:
            cg, aa = shipped_specs(name)
        except Exception:
            # the shipped files cannot be loaded on this tree (that is C11 / C12 / C15's business, not this engine's):
            # fall back to a generated pair
            return _generated(rng, tier, focus)
        start, end = (cg, aa) if rng.random() < 0.7 else (aa, cg)
        ns, ne = len(start["positions"]), len(end["positions"])
        n_mob = min(ns, ne)
        restr = [] if rng.random() < 0.6 else [[rng.randrange(ns), rng.randrange(ne)] for _ in range(rng.randint(1, 3))]
        allowed = [0, 1] + ([2] if n_mob >= 2 else [])
        return {"focus": focus, "mode": "align", "start": start, "end": end, "restraints": restr,
                "deform": None if rng.random() < 0.5 else rng.sample(allowed, rng.randint(1, len(allowed))),
                "ignore_h": rng.random() < 0.7, "steps_factor": rng.choice([1, 1, 2]), "sigma_scale": 0.5,
                "np_seed": rng.randrange(2 ** 32), "script": gen_script(rng), "shipped": name}
    return _generated(rng, tier, focus)


def _degenerate(rng, tier, focus):
    """C06 only: a mobile (end) molecule with a hub atom whose bonded neighbours are EXACTLY collinear (dyadic
    coordinates, e.g. placeholder beads drawn on a line).  The random single-atom displacement of the hub is then 0/0:
    the proposal is non-finite and must never become the held configuration ("all coordinates remain finite")."""
    n_end = rng.randint(4, 9)
    n_start = rng.randint(n_end, 12)
    start = _mol(rng, "SPC", n_start, tree=False, p_h=rng.choice([0.0, 0.3]), origin=gen.rvec(rng, 1.0))
    hub = rng.randrange(n_end)
    others = [i for i in range(n_end) if i != hub]
    rng.shuffle(others)
    k = rng.randint(3, len(others))
    neigh, rest = others[:k], others[k:]
    edges = [[hub, j] if rng.random() < 0.5 else [j, hub] for j in neigh]
    rng.shuffle(edges)
    placed = list(neigh)
    for j in rest:
        edges.append([rng.choice(placed), j])
        placed.append(j)
    pos = [None] * n_end
    h = np.array([rng.randrange(-64, 64) / 32.0 for _ in range(3)])
    pos[hub] = h
    while True:
        u = np.array([rng.randrange(-3, 4) for _ in range(3)]) / 32.0
        if np.any(u):
            break
    q = h + np.array([rng.randrange(-6, 7) for _ in range(3)]) / 64.0
    ts = rng.sample(range(-5, 6), k)
    for j, t in zip(neigh, ts):
        pos[j] = q + t * u
    if any(np.linalg.norm(pos[j] - h) < 1e-3 for j in neigh):
        return _generated(rng, tier, focus, allow_degenerate=False)
    for e in edges[k:]:
        par, j = e
        while True:
            cand = pos[par] + gen.unit_vec(rng) * rng.uniform(0.1, 0.2)
            if all(p_ is None or np.linalg.norm(cand - p_) > 0.03 for p_ in pos):
                break
        pos[j] = cand
    names = [gen.atom_name(rng, i, False) for i in range(n_end)]
    end = {"name": "SPC", "atom_names": names, "resnames": ["SPC"] * n_end, "resids": [1] * n_end,
           "edges": edges, "positions": [[float(x) for x in p_] for p_ in pos]}
    deform = rng.choice([[2], [2], [0, 2], [1, 2], [0, 1, 2], None])
    script = {"sites": {"atomindex": {"p": 0.3, "burst": rng.choice([3, 10]), "mode": 3}}, "seed": rng.randrange(2 ** 31)}
    if rng.random() < 0.3:
        script = gen_script(rng)
    return {"focus": focus, "mode": "align", "reassign": None, "start": start, "end": end,
            "restraints": [] if rng.random() < 0.6 else [[rng.randrange(n_start), rng.randrange(n_end)]],
            "deform": deform, "auto_guess": None, "ignore_h": rng.random() < 0.5, "steps_factor": rng.choice([1, 2, 4]),
            "sigma_scale": 0.5, "np_seed": rng.randrange(2 ** 32), "script": script, "degenerate": True}


def _generated(rng, tier, focus, allow_degenerate=True):
    if allow_degenerate and focus == "C06" and rng.random() < 0.06:
        return _degenerate(rng, tier, focus)
    big = tier == "thorough" and rng.random() < 0.25
    hi = 40 if big else 12
    c = rng.random()
    if c < 0.12:
        n_start = n_end = rng.randint(2, hi)            # tie: start is fixed
    elif c < 0.2:
        n_start, n_end = rng.randint(2, hi), 1          # one-atom end molecule: early return
    elif c < 0.28:
        n_start, n_end = 1, rng.randint(2, hi)          # one-atom mobile start
    else:
        n_start, n_end = rng.randint(1, hi), rng.randint(1, hi)
        if max(n_start, n_end) < 2:
            n_end = rng.randint(2, hi)
    start_fixed = n_start >= n_end
    p_h = rng.choice([0.0, 0.0, 0.3, 0.6])
    far = rng.choice([0.0, 1.0, 25.0])
    if focus == "C06" and rng.random() < 0.08:
        far = rng.choice([3000.0, 7000.0])       # legal in a .gro file (up to 9999.999); separations stay molecular
    n_res = 1
    if min(n_start, n_end) >= 2 and rng.random() < 0.15:
        n_res = rng.randint(2, min(3, n_start, n_end))       # multi-residue pair (same residue names at each position)
    start = _mol(rng, "SPC", n_start, tree=not start_fixed, p_h=p_h, origin=gen.rvec(rng, far), n_res=n_res)
    end = _mol(rng, "SPC", n_end, tree=start_fixed, p_h=p_h, origin=gen.rvec(rng, far), n_res=n_res)
    if focus == "C09" and n_start == n_end and rng.random() < 0.35:
        # the molecule against ITSELF at the same coordinates: the search starts at an overlap measure of exactly 0, every
        # proposal is worse, and 0.01 * E_held / E_new is 0 -- nothing may be accepted
        import copy as _copy
        start = _copy.deepcopy(end)
        identical_pair = True
    else:
        identical_pair = False
    if rng.random() < 0.3:
        start["velocities"] = [gen.rvec(rng, 1.0) for _ in range(n_start)]
    n_mob = min(n_start, n_end) if n_start != n_end else n_end
    if focus == "C06" and n_mob >= 3 and rng.random() < 0.12:
        # a connected mobile molecule WITH rings: no bond oracle, but with single-atom moves disabled every distance stays
        mob = end if start_fixed else start
        mob["edges"] = [list(e) for e in gen.add_cycles(rng, n_mob, [tuple(e) for e in mob["edges"]], rng.randint(1, 2))]
    # restraints
    r = rng.random()
    if r < 0.4:
        restr = []
    elif r < 0.7:
        restr = [[rng.randrange(n_start), rng.randrange(n_end)] for _ in range(rng.randint(1, 4))]
    elif r < 0.85:
        # every fixed atom restrained (possibly with duplicates)
        nf = n_start if start_fixed else n_end
        restr = []
        for i in range(nf):
            j = rng.randrange(n_mob)
            restr.append([i, j] if start_fixed else [j, i])
        if rng.random() < 0.5:
            restr += [list(x) for x in rng.sample(restr, min(len(restr), 2))]
    else:
        base = [rng.randrange(n_start), rng.randrange(n_end)]
        restr = [base, list(base), [base[0], rng.randrange(n_end)], [rng.randrange(n_start), base[1]]]
    # deformation types
    allowed = [0, 1] + ([2] if n_mob >= 2 else [])
    d = rng.random()
    if d < 0.35:
        deform = None
    else:
        k = rng.randint(1, len(allowed))
        deform = rng.sample(allowed, k)
    sf_hi = 6 if tier == "quick" else 25
    steps_factor = rng.choice([1, 1, 2, 3, rng.randint(1, sf_hi), rng.randint(1, sf_hi)])
    if rng.random() < 0.03:
        steps_factor = rng.randint(20, 60)
    auto_guess = None
    if n_res > 1 and rng.random() < 0.6:
        restr = None                                   # let the alignment guess them by residue matching (or not)
        auto_guess = rng.random() < 0.7
    reassign = None
    if rng.random() < 0.25:
        # documented use: once both are set, either may be set again with another configuration of the same molecule
        reassign = {"which": rng.choice(["start", "end", "both"]), "shift": gen.rvec(rng, 3.0),
                    "R": gen.random_rotation(rng).tolist()}
    tr = {"focus": focus, "mode": "align", "reassign": reassign, "start": start, "end": end, "restraints": restr, "deform": deform,
          "auto_guess": auto_guess, "ignore_h": rng.random() < 0.6, "steps_factor": steps_factor,
          "sigma_scale": rng.choice([0.5, 0.5, rng.uniform(0.05, 2.0)]),
          "np_seed": rng.randrange(2 ** 32), "script": gen_script(rng)}
    # how the molecules reach the Alignment and in what form the options are written
    if identical_pair:
        tr["identical_pair"] = True
        if n_end >= 3 and rng.random() < 0.6:
            # ... with some hydrogens, filtered out of the fixed copy: moving one of them in the mobile copy leaves the
            # measure at exactly 0 -- a proposal of EQUAL measure, which is always accepted
            deg = {}
            for a_, b_ in end["edges"]:
                deg[a_] = deg.get(a_, 0) + 1
                deg[b_] = deg.get(b_, 0) + 1
            leaves = [i_ for i_ in range(n_end) if deg.get(i_, 0) == 1]
            def heavy_(nm):
                return not nm.lstrip("0123456789").upper().startswith("H")
            for i_ in leaves[:max(1, len(leaves) // 2)]:
                if sum(1 for k_, nm in enumerate(end["atom_names"]) if k_ != i_ and heavy_(nm)) < 2:
                    break                       # (a molecule must keep heavy atoms: the filter leaves nothing otherwise)
                for spec_ in (start, end):
                    spec_["atom_names"][i_] = "H%d" % (i_ % 100)
            tr["ignore_h"] = True
            if tr["deform"] is not None and 2 not in tr["deform"]:
                tr["deform"] = sorted(set(tr["deform"]) | {2})
    tr["lifecycle"] = rng.choice(["ctor", "ctor", "ctor", "assign", "none_then_assign", "assign_reversed"])
    tr["forms"] = {"deform": rng.choice(["tuple", "tuple", "list"]), "restr": rng.choice(["tuples", "tuples", "lists"]),
                   "omit_empty": rng.random() < 0.3}
    if focus == "C06" and min(n_start, n_end) >= 2 and rng.random() < 0.2:
        # the SAME Alignment object is used again: after the first alignment the mobile molecule is re-assigned with another
        # conformation of the same species (other bond lengths) and aligned once more
        tr["second"] = {"amp": rng.choice([0.02, 0.05, 0.1]), "seed": rng.randrange(2 ** 31), "also_fixed": rng.random() < 0.3,
                        "rebond": rng.random() < 0.35}
    if focus == "C09" and rng.random() < 0.12:
        # the same molecules in other length units (coordinates ~1e-6 or ~1e3 of the usual): every comparison of the search
        # is scale-free, absolute thresholds are not
        f = rng.choice([1e-6, 1e-4, 1e3])
        for spec in (start, end):
            spec["positions"] = (np.array(spec["positions"]) * f).tolist()
        if tr.get("reassign"):
            tr["reassign"]["shift"] = [x * f for x in tr["reassign"]["shift"]]     # (offsets are lengths too)
        tr["unit_scale"] = f
    if focus == "C09" and rng.random() < 0.3:
        # drive the optimiser entry point directly: any step budget 1..2000
        tr["mode"] = "direct"
        tr["n_steps"] = rng.choice([1, 2, 3, rng.randint(1, 50), rng.randint(1, 400), rng.randint(1, 2000 if tier == "thorough" else 600)])
        mob = end if start_fixed else start
        n_mob_atoms = len(mob["positions"])
        if n_mob_atoms >= 4 and len(mob["edges"]) == n_mob_atoms - 1 and rng.random() < 0.25:
            # the optimiser entry point is handed a mobile set in two bonded pieces, and every fixed atom is restrained to
            # atoms of ONE piece: moves inside the other piece leave the measure EXACTLY unchanged -- the "equal measure is
            # always accepted" half of the rule, which generic connected molecules never reach
            edges = [list(e) for e in mob["edges"]]
            cut = edges.pop(rng.randrange(len(edges)))
            adj = gen.adjacency(n_mob_atoms, [tuple(e) for e in edges])
            comp, todo = {cut[0]}, [cut[0]]
            while todo:
                v = todo.pop()
                for w in adj[v]:
                    if w not in comp:
                        comp.add(w)
                        todo.append(w)
            piece = sorted(comp)
            if len(piece) < 2 or n_mob_atoms - len(piece) < 2:
                return tr              # every atom keeps at least one bond (the move needs a bonded neighbour)
            mob["edges"] = edges
            nf = n_start if start_fixed else n_end
            restr = []
            for i in range(nf):
                j = rng.choice(piece)
                restr.append([i, j] if start_fixed else [j, i])
            tr["restraints"] = restr
            tr["two_piece_mobile"] = True
            tr["n_steps"] = min(tr["n_steps"], 60)      # tie moves are always accepted: long budgets only cost time here
            if tr["deform"] is not None and 2 not in tr["deform"]:
                tr["deform"] = tr["deform"] + [2]
    return tr


SITES = ["accept", "movetype", "atomindex", "transl", "angle", "axis", "atommag"]


def gen_script(rng):
    if rng.random() < 0.25:
        return {"sites": {}, "seed": 0}
    sites = {}
    for s in rng.sample(SITES, rng.randint(1, 4)):
        sites[s] = {"p": rng.choice([0.02, 0.1, 0.3]), "burst": rng.choice([1, 3, 10, 40]),
                    "mode": rng.randrange(4)}
    return {"sites": sites, "seed": rng.randrange(2 ** 31)}


def abbreviate(trace):
    return {"focus": trace["focus"], "mode": trace["mode"], "n_start": len(trace["start"]["positions"]),
            "n_end": len(trace["end"]["positions"]), "restraints": (trace["restraints"] or [])[:6] if trace["restraints"] is not None else None,
            "auto_guess": trace.get("auto_guess"), "deform": trace["deform"],
            "ignore_h": trace["ignore_h"], "steps_factor": trace["steps_factor"], "sigma_scale": trace["sigma_scale"],
            "np_seed": trace["np_seed"], "script": trace["script"], "n_steps": trace.get("n_steps")}


OPS_REMOVABLE = False


def simplify(trace):
    sc = trace["script"]
    if sc["sites"]:
        t = dict(trace)
        t["script"] = {"sites": {}, "seed": 0}
        yield t
        for s in list(sc["sites"]):
            t = dict(trace)
            t["script"] = {"sites": {k: v for k, v in sc["sites"].items() if k != s}, "seed": sc["seed"]}
            yield t
    if trace["restraints"] is None:
        t = dict(trace)
        t["restraints"] = []
        yield t
    if trace["restraints"]:
        t = dict(trace)
        t["restraints"] = []
        yield t
        if len(trace["restraints"]) > 1:
            for i in range(len(trace["restraints"])):
                t = dict(trace)
                t["restraints"] = trace["restraints"][:i] + trace["restraints"][i + 1:]
                yield t
    if trace["steps_factor"] > 1:
        for f in (1, trace["steps_factor"] // 2):
            if 1 <= f < trace["steps_factor"]:
                t = dict(trace)
                t["steps_factor"] = f
                yield t
    if trace.get("n_steps", 1) > 1:
        for f in (1, trace["n_steps"] // 2):
            t = dict(trace)
            t["n_steps"] = max(1, f)
            yield t
    if trace["deform"] is not None and len(trace["deform"]) > 1:
        for i in range(len(trace["deform"])):
            t = dict(trace)
            t["deform"] = trace["deform"][:i] + trace["deform"][i + 1:]
            yield t
    if trace["ignore_h"]:
        t = dict(trace)
        t["ignore_h"] = False
        yield t
    for key in ("start", "end"):
        if "velocities" in trace[key]:
            t = dict(trace)
            t[key] = {k: v for k, v in trace[key].items() if k != "velocities"}
            yield t


# --------------------------------------------------------------------------
# override script ("buggify") on the random stream
# --------------------------------------------------------------------------

class Script:
    def __init__(self, script, ctx, n_mobile, hubs):
        self.sites = script.get("sites", {})
        self.rng = _random.Random(script.get("seed", 0))
        self.ctx = ctx
        self.left = {s: 0 for s in self.sites}
        self.pinned = {}
        self.n_mobile = n_mobile
        self.hubs = hubs

    def _active(self, s):
        if s not in self.sites:
            return False
        if self.left[s] > 0:
            self.left[s] -= 1
            return True
        if self.rng.random() < self.sites[s]["p"]:
            self.left[s] = self.sites[s]["burst"] - 1
            self.pinned.pop(s, None)
            return True
        return False

    def __call__(self, site, fname, args, kwargs, draw):
        ctx = self.ctx
        hi = math.nextafter(1.0, 0.0)
        if site == "accept_metropolis" and fname == "rand":
            if self._active("accept"):
                ctx.fault("accept_draw_extreme")
                return 0.0 if self.sites["accept"]["mode"] % 2 == 0 else hi
        elif site == "_minimize_molecules" and fname == "choice":
            if self._active("movetype"):
                opts = list(args[0])
                if "movetype" not in self.pinned:
                    self.pinned["movetype"] = opts[self.rng.randrange(len(opts))]
                ctx.fault("move_type_pinned")
                return self.pinned["movetype"]
        elif site == "move_mol_atom" and fname == "randint":
            if self._active("atomindex"):
                n = int(args[0])
                if "atomindex" not in self.pinned:
                    m = self.sites["atomindex"]["mode"]
                    cand = [n - 1, 0, self.hubs[0] if self.hubs else 0, self.hubs[-1] if self.hubs else n - 1][m]
                    self.pinned["atomindex"] = min(max(int(cand), 0), n - 1)
                ctx.fault("atom_index_pinned")
                return self.pinned["atomindex"]
        elif site == "_minimize_molecules" and fname == "normal":
            size3 = len(args) >= 3
            if size3 and self._active("transl"):
                f = [1e3, 1e-6, -1.0, 30.0][self.sites["transl"]["mode"]]
                ctx.fault("translation_scaled")
                return draw() * f
            if not size3 and self._active("angle"):
                ctx.fault("rotation_angle_extreme")
                return [math.pi, -math.pi, 20.0, 1e-9][self.sites["angle"]["mode"]]
        elif site == "_minimize_molecules" and fname == "uniform":
            if self._active("axis"):
                m = self.sites["axis"]["mode"]
                ctx.fault("rotation_axis_extreme")
                if m == 0:
                    return draw() * 1e-6 + 1e-9
                if m == 3 and self.rng.random() < 0.5:
                    # a direction of ALMOST unit length (a legal draw from the cube): where a "looks normalised" shortcut bites
                    v = np.array([self.rng.gauss(0, 1) for _ in range(3)])
                    v /= np.linalg.norm(v)
                    return v * (1 + self.rng.choice([-1, 1]) * 10 ** self.rng.uniform(-9, -6.3)) * (1 - 1e-12)
                ax = np.zeros(3)
                ax[m - 1] = 1.0 if self.rng.random() < 0.5 else -hi
                return ax
        elif site == "find_atom_random_displ" and fname == "normal":
            if self._active("atommag"):
                f = [1e3, 1e-6, -1.0, 20.0][self.sites["atommag"]["mode"]]
                ctx.fault("atom_displacement_scaled")
                return draw() * f
        return NotImplemented


# --------------------------------------------------------------------------
# the monitors and the reference model of the loop
# --------------------------------------------------------------------------

class Watch:
    def __init__(self, ctx, tree_mobile, degenerate=False):
        self.ctx = ctx
        self.tree_mobile = tree_mobile
        self.phase = "idle"
        # degenerate geometry (C06 only): non-finite proposals are legal there and the statements of C07-C09 do not cover
        # them (generic coordinates, energies > 0): their monitors stand down, the end-state oracles of C06 stay
        self.degenerate = degenerate
        self.unobservable = bool(degenerate)
        self.n_steps = None
        self.sim_type = None
        self.held = None
        self.E_held = None
        self.E_held_ref = None
        self.E_min = None
        self.counter = 0
        self.cur = None
        self.expected_prints = []
        self.accept_u = None
        self.last_randint = None
        self.last_displ = None
        self.iterations = 0
        self.n_accept_worse = 0
        self.returned_checked = False
        self.fixed = None
        self.restr = None
        self.sig = []
        self.unit = 1.0              # length unit of the run (coordinates ~unit): floors of the tolerances
        self.orphan_chi2 = 0         # evaluations inside the loop phase that no recognised iteration accounts for
        self.overdue = False         # a move type was drawn although the budget was already used up
        self.in_accept = False
        self.draws_in_accept = 0
        self.bonds = None            # snapshot of the bond table the search was started with

    # ---- random seam listener --------------------------------------------------------
    def on_draw(self, site, fname, args, value):
        if self.in_accept:
            self.draws_in_accept += 1
        if site == "_minimize_molecules" and fname == "choice":
            self.on_choice(value, args[0] if args else None)
        elif site == "accept_metropolis" and fname == "rand":
            self.accept_u = float(value)
        elif self.in_accept and self.accept_u is None and fname in ("random", "random_sample", "uniform", "rand", "ranf", "sample"):
            # the acceptance draw through another spelling of "uniform in [0, 1)"
            try:
                v = float(value)
                if 0.0 <= v < 1.0:
                    self.accept_u = v
            except Exception:
                pass
        elif site == "move_mol_atom" and fname == "randint":
            self.last_randint = int(value)

    def on_choice(self, value, options):
        ctx = self.ctx
        if self.phase != "loop":
            return
        if self.cur is not None and not self.cur.get("judged"):
            # the previous iteration never reached the acceptance test through the seam we watch
            self.unobservable = True
        if not self.unobservable and self.counter >= self.n_steps:
            # drawing is not yet a step: the violation is a PROPOSAL evaluated beyond the budget (see on_chi2)
            self.overdue = True
        if self.iterations > 200000:
            # a search that keeps finding new minima (tiny steps, a long way to go) may legitimately run on; by the model its
            # counter is still below the budget (otherwise the check above / in on_chi2 has fired).  The harness stops watching.
            ctx.probe("search_longer_than_the_harness_follows")
            self.unobservable = True
            raise ExtraDraw()
        self.iterations += 1
        ctx.steps += 1
        try:
            v = int(value)
        except Exception:
            v = value
        if v not in tuple(int(x) for x in self.sim_type):
            ctx.violate("C09", "disabled-move-type", f"move type {v} drawn; enabled types are {tuple(self.sim_type)}")
        self.cur = {"type": v, "judged": False}

    # ---- component monitors ------------------------------------------------------------
    def on_chi2(self, config, value, ref=None):
        """ref: the reference definition's value for this configuration (None when undefined: a nearest-neighbour tie)."""
        ctx = self.ctx
        config = np.array(config, dtype=float, copy=True)
        if self.phase == "init":
            self.held = config
            self.E_held = value
            self.E_held_ref = ref
            self.E_min = value
            self.counter = 0
            self.phase = "loop"
            return
        if self.phase == "loop" and self.cur is None:
            self.orphan_chi2 += 1
        if self.phase != "loop" or self.cur is None:
            return
        if self.overdue and not self.unobservable:
            ctx.violate("C09", "does-not-stop", f"the search evaluated another proposal after {self.counter} consecutive steps "
                                                f"without a new lowest measure (budget {self.n_steps})")
            raise ExtraDraw()
        cur = self.cur
        cur["proposal"] = config
        cur["E_new"] = value
        cur["E_ref"] = ref
        if self.unobservable:
            return
        held = self.held
        if config.shape != held.shape:
            ctx.violate("C09", "proposal-shape", f"proposal has shape {config.shape}, held configuration {held.shape}")
            return
        scale = max(self.unit, float(np.max(np.abs(held))), float(np.max(np.abs(config))))
        t = cur["type"]
        if t == 0:
            diff = config - held
            if float(np.max(np.abs(diff - diff[0]))) > 1e-12 * scale:
                ctx.violate("C09", "proposal-not-translation", "a translation proposal does not differ from the held "
                                                               "configuration by one common vector")
        elif t == 1:
            c0 = held.mean(axis=0)
            c1 = config.mean(axis=0)
            if float(np.max(np.abs(c0 - c1))) > 1e-9 * scale:
                ctx.violate("C09", "rotation-moves-centroid", f"a rotation proposal moved the centroid by "
                                                              f"{float(np.max(np.abs(c0 - c1))):.3e} nm")
            elif len(held) > 1:
                d0 = np.linalg.norm(held[:, None] - held[None, :], axis=-1)
                d1 = np.linalg.norm(config[:, None] - config[None, :], axis=-1)
                if float(np.max(np.abs(d0 - d1))) > 1e-9 * scale:
                    ctx.violate("C09", "rotation-not-rigid", "a rotation proposal changed interatomic distances of the held "
                                                             "configuration")
            M = cur.get("rot")
            if M is not None:
                want = (held - c0) @ M + c0
                alt = (held - c0) @ M.T + c0
                dev = min(float(np.max(np.abs(want - config))), float(np.max(np.abs(alt - config))))
                if dev > 1e-9 * scale:
                    ctx.violate("C09", "rotation-not-of-held", f"the rotation proposal is not the held configuration rotated "
                                                               f"about its centroid by the drawn matrix (off by {dev:.3e} nm)")
        elif t == 2:
            mv = cur.get("move")
            if mv is not None:
                if not np.array_equal(mv[0], held):
                    ctx.violate("C09", "atom-move-not-of-held", "the single-atom move was not applied to the held configuration")
                elif not np.array_equal(mv[1], config):
                    ctx.violate("C09", "atom-move-proposal", "the evaluated proposal is not the output of the single-atom move")
            # "a bond-preserving single-atom move": on an acyclic molecule every bond of the proposal has the length the table
            # the search was started with says (whatever produced the proposal)
            if self.tree_mobile and self.bonds and np.all(np.isfinite(config)):
                for i_, lst in self.bonds.items():
                    bad_ = next(((j_, L_) for j_, L_ in lst
                                 if abs(float(np.linalg.norm(config[i_] - config[j_])) - L_) > 1e-9 * max(abs(L_), 1e-300)), None)
                    if bad_ is not None:
                        ctx.violate("C09", "atom-move-not-bond-preserving",
                                    f"a single-atom proposal has bond {i_}-{bad_[0]} at length "
                                    f"{float(np.linalg.norm(config[i_] - config[bad_[0]]))!r}; the bond table says {bad_[1]!r} "
                                    f"({len(config)} atoms)")
                        break
            else:
                ctx.probe("atom_move_not_observed")

    def on_accept(self, e0, e1, result, u):
        ctx = self.ctx
        if self.phase != "loop" or self.cur is None:
            return
        cur = self.cur
        cur["judged"] = True
        result = bool(result)
        if self.unobservable or "E_new" not in cur:
            self.unobservable = True
            return
        if not (e0 == self.E_held):
            ctx.violate("C09", "judged-against-wrong-energy",
                        f"iteration {self.iterations}: the proposal was judged against {e0!r}, but the measure of the held "
                        f"configuration is {self.E_held!r} (lowest so far {self.E_min!r})")
        if not (e1 == cur["E_new"]):
            ctx.violate("C09", "judged-wrong-proposal-energy", f"the acceptance test received {e1!r}; the proposal's measure is "
                                                               f"{cur['E_new']!r}")
        # "judged against the overlap measure of the configuration currently held": the two numbers compared must be THE
        # measure (C08's definition) of the held configuration and of the proposal as they are now, not values a stateful
        # calculator produced under other circumstances
        for what, got, ref in (("held configuration", e0, getattr(self, "E_held_ref", None)), ("proposal", e1, cur.get("E_ref"))):
            if ref is not None:
                try:
                    bad = not math.isfinite(float(got)) or abs(float(got) - ref) > 1e-9 * max(abs(ref), 1e-300)
                except Exception:
                    bad = True
                if bad:
                    ctx.violate("C09", "energy-is-not-the-measure",
                                f"iteration {self.iterations}: the acceptance test compared {got!r} for the {what}, whose overlap "
                                f"measure by the reference definition is {ref!r}", key=what.split()[0])
                    break
        # the rule
        if e0 == 0 and e1 > 0:
            ctx.probe("worse_proposal_against_a_held_measure_of_zero")
        if e0 == 0 and e1 == 0:
            ctx.probe("equal_proposal_both_measures_zero")
        if e1 <= e0:
            expect = True
            if e1 == e0 and not np.array_equal(cur["proposal"], self.held):
                ctx.probe("equal_measure_other_configuration")
        elif u is None:
            expect = None
            ctx.probe("acceptance_draw_not_observed")
            if result and self.draws_in_accept == 0:
                # a worse proposal was accepted and the acceptance test consumed NO random number at all (every numpy draw
                # goes through the seam): that is acceptance with probability 1, not 0.01 E_held / E_new
                ctx.violate("C09", "metropolis-rule", f"E_held={e0!r} E_new={e1!r}: a worse proposal was accepted without any "
                                                      f"random draw", key="no-draw")
        else:
            thr = 0.01 * (e0 / e1)
            expect = None if abs(u - thr) < 1e-12 else (u <= thr)
        if expect is not None and expect != result:
            ctx.violate("C09", "metropolis-rule", f"E_held={e0!r} E_new={e1!r} u={u!r}: expected "
                                                  f"{'accept' if expect else 'reject'}, got {'accept' if result else 'reject'}")
        if result and e1 > e0:
            self.n_accept_worse += 1
            ctx.probe("accepted_worse_proposal")
        new_min = False
        if result:
            self.held = cur["proposal"]
            self.E_held = cur["E_new"]
            self.E_held_ref = cur.get("E_ref")
            if self.E_held < self.E_min:
                self.E_min = self.E_held
                self.expected_prints.append(self.E_min)
                self.counter = 0
                new_min = True
                ctx.probe("new_minimum")
            else:
                self.counter += 1
                ctx.probe("accepted_without_new_minimum")
        else:
            self.counter += 1
            ctx.probe("rejected_proposal")
        if len(self.sig) < 400:
            self.sig.append((cur["type"], result, new_min))


def make_monitors(ctx, watch, real):
    """Returns replacement objects for the module globals."""
    RealChi2, real_accept, real_move, real_displ, real_rot = real

    class MonChi2:
        def __init__(self, mol1, mol2, restrictions=None, *extra, **kw):
            self._real = RealChi2(mol1, mol2, restrictions, *extra, **kw)
            self._fixed = np.array(mol1, dtype=float, copy=True)
            self._restr = [] if restrictions is None or len(restrictions) == 0 else [tuple(int(x) for x in r) for r in restrictions]
            self._construct_mol2 = np.array(mol2, dtype=float, copy=True)
            watch.fixed = self._fixed
            watch.restr = self._restr
            given = getattr(watch, "given_restr", None)
            if given is not None and watch.phase == "init" and sorted(given) != sorted(self._restr):
                # "the overlap measure" of the search is the measure of the restraint list the search was GIVEN (every pair
                # with its multiplicity: a pair listed twice weighs twice); a search that builds its measure from another
                # list judges every proposal against another function
                ctx.violate("C09", "measure-built-from-other-restraints",
                            f"the search was given the restraints {given[:8]}{'...' if len(given) > 8 else ''} and builds its "
                            f"measure from {self._restr[:8]}{'...' if len(self._restr) > 8 else ''}")
            ctx.counters["chi2_path:" + ("none" if not self._restr else
                                         ("all" if len({r[0] for r in self._restr}) == len(self._fixed) else "some"))] += 1

        def __call__(self, mol2):
            arr_before = np.array(mol2, dtype=float, copy=True)
            val = self._real(mol2)
            ctx.counters["chi2_evaluations"] += 1
            if not np.array_equal(arr_before, np.asarray(mol2, dtype=float)):
                ctx.violate("C08", "chi2-modifies-argument", "evaluating the measure modified the configuration array")
            try:
                fval = float(val)
            except Exception:
                ctx.violate("C08", "chi2-not-a-number", f"the measure returned {val!r}")
                watch.on_chi2(arr_before, val)
                return val
            if watch.degenerate and not np.all(np.isfinite(arr_before)):
                ctx.probe("non_finite_proposal_evaluated")
                watch.on_chi2(arr_before, val, None)
                return val
            want, k, ambiguous = fast_chi2(self._fixed, arr_before, self._restr)
            if ambiguous:
                ctx.probe("chi2_tie_skipped")
            else:
                if not np.array_equal(arr_before, self._construct_mol2):
                    ctx.probe("chi2_off_construction_config")
                if k:
                    ctx.probe("chi2_penalty_k>0")
                if not math.isfinite(fval) or abs(fval - want) > 1e-9 * max(abs(want), 1e-300) or fval < 0:
                    ctx.violate("C08", "chi2-value", f"measure = {fval!r}, reference definition gives {want!r} "
                                                     f"(k={k}, {len(self._restr)} restraints, {len(self._fixed)}x{len(arr_before)} atoms)",
                                key="none" if not self._restr else "restr")
            watch.on_chi2(arr_before, val, None if ambiguous else want)
            return val

    def mon_accept(energy_0, energy_1, *a, **kw):
        watch.accept_u = None
        watch.draws_in_accept = 0
        watch.in_accept = True
        try:
            res = real_accept(energy_0, energy_1, *a, **kw)
        finally:
            watch.in_accept = False
        watch.on_accept(energy_0, energy_1, res, watch.accept_u)
        return res

    def mon_displ(atoms_pos, bonds_info, atom_index, *a, **kw):
        before = np.array(atoms_pos, dtype=float, copy=True)
        tsnap = table_snapshot(bonds_info)
        out = real_displ(atoms_pos, bonds_info, atom_index, *a, **kw)
        table_unchanged(ctx, bonds_info, tsnap, "find_atom_random_displ")
        if watch.degenerate and not np.all(np.isfinite(np.asarray(out, dtype=float))):
            ctx.probe("non_finite_displacement")
            watch.last_displ = np.array(out, dtype=float, copy=True)
            return out
        check_displacement(ctx, before, tsnap, atom_index, out)
        if not np.array_equal(before, np.asarray(atoms_pos)):
            ctx.violate("C07", "displ-modifies-input", "find_atom_random_displ modified the coordinate array")
        watch.last_displ = np.array(out, dtype=float, copy=True)
        return out

    def mon_move(atoms_pos, bonds_info, atom_index=None, displ=None, sigma_scale=0.5, *extra, **kw):
        before = np.array(atoms_pos, dtype=float, copy=True)
        watch.last_randint = None
        watch.last_displ = None
        tsnap = table_snapshot(bonds_info)
        out = real_move(atoms_pos, bonds_info, atom_index, displ, sigma_scale, *extra, **kw)
        table_unchanged(ctx, bonds_info, tsnap, "move_mol_atom")
        idx = atom_index if atom_index is not None else watch.last_randint
        d = displ if displ is not None else watch.last_displ
        if watch.degenerate and not np.all(np.isfinite(np.asarray(out, dtype=float))):
            ctx.probe("non_finite_move")
        else:
            check_move(ctx, before, np.asarray(atoms_pos), tsnap, idx, d, out, tree=watch.tree_mobile)
        if watch.cur is not None:
            watch.cur["move"] = (before, np.array(out, dtype=float, copy=True))
        return out

    def mon_rot(axis, theta, *extra, **kw):
        ax_before = np.array(axis, dtype=float, copy=True)
        M = real_rot(axis, theta, *extra, **kw)
        check_rotation(ctx, ax_before, float(theta), M)
        if not np.array_equal(ax_before, np.asarray(axis, dtype=float)):
            ctx.violate("C17", "rotation-modifies-axis", "rotation_matrix modified its axis argument")
        if watch.cur is not None:
            try:
                watch.cur["rot"] = np.array(M, dtype=float, copy=True)
            except Exception:
                pass
        return M

    return MonChi2, mon_accept, mon_move, mon_displ, mon_rot


def table_snapshot(table):
    return {k: [tuple(x) for x in v] for k, v in table.items()}


def table_unchanged(ctx, table, snap_, what):
    try:
        same = list(table) == list(snap_) and all([tuple(x) for x in table[k]] == snap_[k] for k in snap_)
    except Exception:
        same = False
    if not same:
        ctx.violate("C07", "move-modifies-table", f"{what} changed the bond table it was given (entries, lengths or order)")
    return same


def check_rotation(ctx, axis, theta, M, tol=1e-12):
    ctx.counters["rotation_matrices"] += 1
    try:
        M = np.array(M, dtype=float)
    except Exception:
        ctx.violate("C17", "rotation-shape", f"rotation_matrix returned {M!r}")
        return
    if M.shape != (3, 3) or not np.all(np.isfinite(M)):
        ctx.violate("C17", "rotation-not-finite", f"axis {axis.tolist()} theta {theta!r}: matrix {M.tolist()}")
        return
    err = float(np.max(np.abs(M @ M.T - np.eye(3))))
    if err > tol:
        ctx.violate("C17", "rotation-not-orthogonal", f"axis {axis.tolist()} theta {theta!r}: max |R R^T - 1| = {err:.3e}")
        return
    det = float(np.linalg.det(M))
    if abs(det - 1) > tol:
        ctx.violate("C17", "rotation-det", f"axis {axis.tolist()} theta {theta!r}: det = {det!r}")
    u = axis / np.linalg.norm(axis)
    if float(np.max(np.abs(M @ u - u))) > tol:
        ctx.violate("C17", "rotation-axis-not-fixed", f"axis {axis.tolist()} theta {theta!r}: |R a - a| = "
                                                      f"{float(np.max(np.abs(M @ u - u))):.3e}")
    tr = float(np.trace(M))
    if abs(tr - (1 + 2 * math.cos(theta))) > 4 * tol:
        ctx.violate("C17", "rotation-trace", f"axis {axis.tolist()} theta {theta!r}: trace {tr!r} != 1 + 2cos(theta) = "
                                             f"{1 + 2 * math.cos(theta)!r}")


def check_displacement(ctx, pos, bonds_info, idx, displ):
    ctx.counters["random_displacements"] += 1
    try:
        d = np.array(displ, dtype=float)
    except Exception:
        ctx.violate("C07", "displ-shape", f"find_atom_random_displ returned {displ!r}")
        return
    if d.shape != (3,) or not np.all(np.isfinite(d)):
        ctx.violate("C07", "displ-not-finite", f"random displacement of atom {idx}: {displ!r}")
        return
    nb = [b[0] for b in bonds_info[idx]]
    norm = float(np.linalg.norm(d))
    if norm == 0:
        return
    u = d / norm
    if len(nb) == 1:
        refs = [pos[nb[0]] - pos[idx]]
    elif len(nb) == 2:
        refs = [pos[nb[0]] - pos[nb[1]]]
    else:
        refs = [pos[nb[0]] - pos[nb[2]], pos[nb[0]] - pos[nb[1]]]
        ctx.probe("displacement_three_neighbours")
    for r in refs:
        rn = float(np.linalg.norm(r))
        if rn == 0:
            continue
        c = abs(float(u @ (r / rn)))
        if c > 1e-9:
            ctx.violate("C07", "displ-not-perpendicular", f"atom {idx} with {len(nb)} neighbours: |cos| between the drawn "
                                                          f"displacement and the reference direction is {c:.3e}",
                        key=str(min(len(nb), 3)))
            return


def check_move(ctx, before, after_input, bonds_info, idx, displ, out, tree=True):
    ctx.counters["atom_moves"] += 1
    P = "C07"
    if not np.array_equal(before, after_input):
        ctx.violate(P, "move-modifies-input", "move_mol_atom modified its input array")
    try:
        out = np.array(out, dtype=float)
    except Exception:
        ctx.violate(P, "move-shape", f"move_mol_atom returned {out!r}")
        return
    if out.shape != before.shape or not np.all(np.isfinite(out)):
        ctx.violate(P, "move-not-finite", "move_mol_atom returned a non-finite or mis-shaped array")
        return
    if idx is not None and displ is not None:
        want = before[idx] + np.asarray(displ, dtype=float)
        if not np.array_equal(out[idx], want):
            ctx.violate(P, "moved-atom-displacement", f"atom {idx} was displaced by {(out[idx] - before[idx]).tolist()}, "
                                                      f"requested {np.asarray(displ).tolist()}")
    n = len(before)
    exact_edges = []
    all_ok = True
    worst = (0.0, None)
    for i, lst in bonds_info.items():
        for j, length in lst:
            got = float(np.linalg.norm(out[i] - out[j]))
            rel = abs(got - length) / max(abs(length), 1e-300)
            if rel <= 1e-9:
                exact_edges.append((i, j))
            else:
                all_ok = False
                if rel > worst[0]:
                    worst = (rel, (i, j, got, length))
    if tree:
        if not all_ok:
            i, j, got, length = worst[1]
            ctx.violate(P, "bond-length", f"after moving atom {idx}: bond {i}-{j} has length {got!r}, table says {length!r} "
                                          f"(rel. error {worst[0]:.3e})")
    else:
        # cyclic graph: the exact bonds must connect every atom to the moved atom (traversal-agnostic)
        ctx.probe("cyclic_move")
        if idx is not None and not _spans(n, exact_edges, idx, bonds_info):
            ctx.violate(P, "traversal-tree-bonds", f"after moving atom {idx} of a cyclic molecule the exactly restored bonds do "
                                                   f"not reach every atom")


def _spans(n, edges, root, bonds_info):
    adj = {}
    for i, j in edges:
        adj.setdefault(i, set()).add(j)
        adj.setdefault(j, set()).add(i)
    # atoms reachable from root through the full graph
    full = {}
    for i, lst in bonds_info.items():
        for j, _ in lst:
            full.setdefault(i, set()).add(j)
            full.setdefault(j, set()).add(i)

    def reach(a, start):
        seen = {start}
        st = [start]
        while st:
            v = st.pop()
            for w in a.get(v, ()):
                if w not in seen:
                    seen.add(w)
                    st.append(w)
        return seen
    return reach(adj, root) >= reach(full, root)


# --------------------------------------------------------------------------
# execution
# --------------------------------------------------------------------------

def mol_snapshot(m):
    v = m.atoms_velocities
    return (np.array(m.atoms_positions, copy=True), None if v is None else np.array(v, copy=True), list(m.atoms_ids),
            list(m.resids), [a.name for a in m], list(m.resnames))


def snapshots_equal(a, b):
    labels = ["coordinates", "velocities", "atom numbers", "residue numbers", "atom names", "residue names"]
    for x, y, l in zip(a, b, labels):
        if isinstance(x, np.ndarray) or isinstance(y, np.ndarray):
            if x is None or y is None or not np.array_equal(x, y):
                return l
        elif x != y:
            return l
    return None


def execute(trace, ctx):
    import gaddlemaps._backend as B
    import gaddlemaps._alignment as A
    import gaddlemaps._transform_molecule as T
    from gaddlemaps import Alignment

    start_spec, end_spec = trace["start"], trace["end"]
    ns, ne = len(start_spec["positions"]), len(end_spec["positions"])
    start_fixed = ns >= ne
    mobile_spec = end_spec if start_fixed else start_spec
    n_mob = len(mobile_spec["positions"])
    madj = gen.adjacency(n_mob, [tuple(e) for e in mobile_spec["edges"]])
    hubs = sorted(range(n_mob), key=lambda i: len(madj[i]))
    tree_mobile = len(mobile_spec["edges"]) == n_mob - 1 and gen.is_connected(n_mob, [tuple(e) for e in mobile_spec["edges"]])
    restr = None if trace["restraints"] is None else [tuple(r) for r in trace["restraints"]]
    deform = None if trace["deform"] is None else tuple(trace["deform"])

    user_start = gen.make_molecule(start_spec)
    user_end = gen.make_molecule(end_spec)
    snap_us, snap_ue = mol_snapshot(user_start), mol_snapshot(user_end)
    re = trace.get("reassign")
    later = {}
    if re:
        R, sh = np.array(re["R"]), np.array(re["shift"])
        for key, spec in (("start", start_spec), ("end", end_spec)):
            if re["which"] in (key, "both"):
                pos = (np.array(spec["positions"]) - np.mean(spec["positions"], axis=0)) @ R.T + np.mean(spec["positions"], axis=0) + sh
                later[key] = gen.make_molecule(spec, positions=pos.tolist())
        ctx.probe("molecule_reassigned_before_alignment")
    snap_later = {k: mol_snapshot(m) for k, m in later.items()}

    def run(monitored):
        """One complete execution; returns (alignment, watch, outcome)."""
        life = trace.get("lifecycle", "ctor")
        if life == "assign":
            ali = Alignment()
            ali.start = user_start
            ali.end = user_end
        elif life == "assign_reversed":
            ali = Alignment()
            ali.end = user_end
            ali.start = user_start
        elif life == "none_then_assign":
            # both set, then cleared, then set again (the documented way to start over)
            ali = Alignment(user_start, user_end)
            ali.start = None
            ali.end = None
            ali.end = user_end
            ali.start = user_start
        else:
            ali = Alignment(user_start, user_end)
        for key, m in later.items():
            setattr(ali, key, m)
        ini_s, ini_e = mol_snapshot(ali.start), mol_snapshot(ali.end)
        if monitored:
            # what the alignment holds before it starts IS what the caller supplied (the statement's "initial value")
            for name, held_snap, given in (("start", ini_s, later.get("start", user_start)), ("end", ini_e, later.get("end", user_end))):
                gs = mol_snapshot(given)
                if not np.array_equal(held_snap[0], gs[0]) or held_snap[4] != gs[4] or held_snap[5] != gs[5]:
                    ctx.violate("C06", "stored-molecule-differs", f"before any alignment the {name} molecule held by the Alignment "
                                                                  f"differs from the one supplied (coordinates, atom names or "
                                                                  f"residue names)", key=name)
        watch = Watch(ctx, tree_mobile, degenerate=bool(trace.get("degenerate")))
        watch.unit = float(trace.get("unit_scale") or 1.0) if float(trace.get("unit_scale") or 1.0) < 1.0 else 1.0
        script = Script(trace["script"], ctx if monitored else _NullCtx(), n_mob, hubs)
        seam = RandomSeam(ctx, trace["np_seed"], listener=watch.on_draw if monitored else None, log=monitored)
        seam.overrider = script
        real = (B.Chi2Calculator, B.accept_metropolis, B.move_mol_atom, T.find_atom_random_displ, B.rotation_matrix)
        real_min = A.minimize_molecules
        info = {}

        def mon_minimize(mol1_positions, mol2_positions, mol2_com, sigma_scale, n_steps, restriction, mol2_bonds_info,
                         displacement_module, sim_type, *extra, **kw):
            watch.n_steps = int(n_steps)
            watch.sim_type = tuple(sim_type)
            watch.phase = "init"
            try:
                watch.bonds = table_snapshot(mol2_bonds_info)
            except Exception:
                watch.bonds = None
            if monitored and trace["mode"] == "align":
                # "restricted to the enabled deformation types": the types the CALLER enabled
                if deform is not None:
                    want_types = set(int(x) for x in deform)
                else:
                    want_types = {0} if (ns == 1 or ne == 1) else {0, 1, 2}
                try:
                    got_types = set(int(x) for x in sim_type)
                except Exception:
                    got_types = None
                if got_types != want_types:
                    ctx.violate("C09", "enabled-types-not-forwarded", f"the caller enabled deformation types {sorted(want_types)}; "
                                                                      f"the search was started with {sim_type!r}")
                mob_now = np.array((ali.end if start_fixed else ali.start).atoms_positions, dtype=float)
                if mob_now.shape != np.shape(mol2_positions) or not np.array_equal(mob_now, np.asarray(mol2_positions, dtype=float)):
                    ctx.violate("C09", "search-not-started-from-mobile", "the search was not started from the configuration of the "
                                                                         "molecule that moves")
            try:
                watch.given_restr = [tuple(int(x) for x in r_) for r_ in restriction]
            except Exception:
                watch.given_restr = None
            info["args"] = (np.array(mol1_positions, copy=True), np.array(mol2_positions, copy=True), int(n_steps),
                            list(restriction), tuple(sim_type), float(displacement_module), float(sigma_scale))
            out = real_min(mol1_positions, mol2_positions, mol2_com, sigma_scale, n_steps, restriction, mol2_bonds_info,
                           displacement_module, sim_type, *extra, **kw)
            watch.phase = "done"
            info["returned"] = np.array(out, dtype=float, copy=True)
            info["returned_raw"] = out
            return out

        old_sf, old_ss = Alignment.STEPS_FACTOR, Alignment.SIGMA_SCALE
        Alignment.STEPS_FACTOR, Alignment.SIGMA_SCALE = trace["steps_factor"], trace["sigma_scale"]
        out_start = len(ctx.stdout.getvalue())
        outcome = "ok"
        tty_swap = None
        if trace["np_seed"] % 5 == 2 and monitored:
            # the search prints progress: in the monitored execution standard output says it is a terminal (the second,
            # unmonitored execution keeps the plain capture -- the outcome must not depend on where the progress goes)
            import sys as _sys
            import io as _io

            class _Tty(_io.StringIO):
                def isatty(self):
                    return True
            tty_swap = _sys.stdout
            _sys.stdout = _Tty()
            ctx.probe("stdout_is_a_terminal")
        try:
            with seam:
                if monitored:
                    MonChi2, mon_accept, mon_move, mon_displ, mon_rot = make_monitors(ctx, watch, real)
                    with patched(B, "Chi2Calculator", MonChi2), patched(B, "accept_metropolis", mon_accept), \
                            patched(B, "move_mol_atom", mon_move), patched(T, "find_atom_random_displ", mon_displ), \
                            patched(B, "rotation_matrix", mon_rot), patched(A, "minimize_molecules", mon_minimize):
                        outcome = _drive(trace, ali, restr, deform, ctx, B, info, watch)
                else:
                    outcome = _drive(trace, ali, restr, deform, ctx, B, info, watch)
        finally:
            Alignment.STEPS_FACTOR, Alignment.SIGMA_SCALE = old_sf, old_ss
            if tty_swap is not None:
                import sys as _sys
                _sys.stdout = tty_swap
        info["stdout"] = ctx.stdout.getvalue()[out_start:]
        return ali, watch, outcome, info, (ini_s, ini_e)

    ali, watch, outcome, info, (ini_s, ini_e) = run(True)
    ctx.op(trace["mode"], outcome)
    if trace.get("shipped"):
        ctx.probe("shipped_pair")
    if trace.get("degenerate"):
        ctx.probe("degenerate_mobile_geometry")
    if trace.get("two_piece_mobile"):
        ctx.probe("two_piece_mobile_direct")
    if trace.get("unit_scale"):
        ctx.probe("other_length_units")
    if trace.get("marathon"):
        ctx.probe("marathon_search_1e5_iterations")
    if trace.get("big_mobile"):
        ctx.probe("mobile_molecule_over_64_atoms")
    if outcome == "extra-draw":
        return
    if outcome.startswith("raised"):
        return
    ctx.nontrivial = True
    if trace["mode"] == "align" and trace["np_seed"] % 4 == 1 and len(ali.end) > 1:
        # the overlap is written out for inspection (the documented next step after aligning): neither the molecules the
        # Alignment holds nor the caller's may change by it
        try:
            before_w = (mol_snapshot(ali.start), mol_snapshot(ali.end))
            ali.write_comparative_gro(os.path.join(ctx.tmpdir(), "compare.gro"))
            after_w = (mol_snapshot(ali.start), mol_snapshot(ali.end))
            dw = snapshots_equal(before_w[0], after_w[0]) or snapshots_equal(before_w[1], after_w[1])
            if dw:
                ctx.violate("C06", "names-or-order-changed", f"write_comparative_gro changed the {dw} of a molecule held by the Alignment")
        except Exception as e:
            ctx.violate("C06", "alignment-raised", f"write_comparative_gro after the alignment raised {type(e).__name__}: {e}",
                        key="write_comparative_gro")
        ctx.probe("comparative_gro_written")
    if trace["mode"] == "align":
        check_c06(trace, ctx, ali, ini_s, ini_e, start_fixed, tree_mobile, deform, mobile_spec)
    d = snapshots_equal(snap_us, mol_snapshot(user_start)) or snapshots_equal(snap_ue, mol_snapshot(user_end))
    for k, m in later.items():
        d = d or snapshots_equal(snap_later[k], mol_snapshot(m))
    if d:
        ctx.violate("C06", "caller-molecule-modified", f"alignment changed the {d} of a molecule supplied by the caller"
                                                       f"{' (one was supplied by re-assigning start/end)' if later else ''}")
    check_c09_end(trace, ctx, watch, info)
    final1 = _final(trace, ali, info)
    if trace.get("second") and trace["mode"] == "align":
        held = (ali.start, ali.end)      # the aligned molecules of the FIRST alignment stay with the caller ...
        ali_b = _second_round(trace, ctx, ali, start_fixed, tree_mobile, deform, mobile_spec, restr)
        # ... and no later alignment may move them: one on ANOTHER Alignment object moves neither, one on this object after a
        # re-assignment does not move the molecule that was replaced
        for which, mol_, f1 in zip(("start", "end"), held, final1):
            if ali_b is None or (ali_b is ali and (mol_ is ali.start or mol_ is ali.end)):
                continue
            try:
                now_ = np.array(mol_.atoms_positions)
            except Exception as e:
                now_ = None
            if now_ is None or now_.shape != f1.shape or not np.array_equal(now_, f1):
                dev_ = float("nan") if now_ is None or now_.shape != f1.shape else float(np.max(np.abs(now_ - f1)))
                ctx.violate("C06", "outcome-changed-later", f"the {which} molecule of a finished alignment moved by {dev_:.3e} nm "
                                                            f"when ANOTHER alignment ran later (its outcome is no longer the one "
                                                            f"its inputs and seed determine)")
                break
    # ---- repeat: the outcome is a deterministic function of inputs and seed ---------------------------
    ali2, _, outcome2, info2, _ = run(False)
    final2 = _final(trace, ali2, info2)
    # the array the FIRST search returned is still with its caller: the searches that ran since must not have written to it
    raw1 = info.get("returned_raw")
    if raw1 is not None and "returned" in info:
        try:
            same_ = np.array_equal(np.asarray(raw1, dtype=float), info["returned"])
        except Exception:
            same_ = False
        if not same_:
            ctx.violate("C09", "returned-changed-later", "the configuration returned by a finished search changed when a later "
                                                         "search ran (it is no longer the last accepted configuration of its "
                                                         "own search)")
    if outcome2 != outcome or any(not np.array_equal(a, b) for a, b in zip(final1, final2)):
        ctx.violate("C06", "not-repeatable", "two executions with the same inputs and the same random seed ended in different "
                                             "configurations")
    for f in final1:
        ctx.ev("final", f)
    ctx.sig.append(tuple(watch.sig))


def _second_round(trace, ctx, ali, start_fixed, tree_mobile, deform, mobile_spec, restr):
    """Re-assign the mobile molecule (another conformation, other bond lengths) on an Alignment that has already aligned,
    align again, and apply the end-state oracles of C06 to the second alignment."""
    from gaddlemaps import Alignment
    sec = trace["second"]
    r2 = _random.Random(sec["seed"])
    mob_key, fix_key = ("end", "start") if start_fixed else ("start", "end")
    spec = trace[mob_key]
    pos = np.array(spec["positions"], dtype=float)
    for _ in range(50):
        new = pos + np.array([np.array(gen.unit_vec(r2)) * r2.uniform(0.2, 1.0) * sec["amp"] for _ in range(len(pos))])
        d = np.linalg.norm(new[:, None] - new[None, :], axis=-1) + np.eye(len(new))
        if d.min() > 0.02:
            break
    else:
        return
    if sec.get("rebond") and len(pos) >= 4 and tree_mobile:
        # ... of the same atoms with ANOTHER (acyclic) bond graph: a corrected topology of the same species.  The molecule
        # compares equal to the stored one (names and numbers), so the Alignment takes it; its bonds are the ones to keep
        spec = dict(spec, edges=[list(e) for e in gen.random_tree(r2, len(pos))])
        mobile_spec = spec
        ctx.probe("mobile_molecule_reassigned_with_another_bond_graph")
    try:
        if sec["seed"] % 3 == 0:
            # ... or ANOTHER Alignment object of the same species is built and aligned while the first one is still in use
            fs = trace[fix_key]
            mols_ = {mob_key: gen.make_molecule(spec, positions=new.tolist()),
                     fix_key: gen.make_molecule(fs, positions=(np.array(fs["positions"]) + np.array([0.3, -0.2, 0.1])).tolist())}
            ali = Alignment(start=mols_["start"], end=mols_["end"])
            ctx.probe("another_alignment_object_of_the_same_species")
        else:
            setattr(ali, mob_key, gen.make_molecule(spec, positions=new.tolist()))
            if sec.get("also_fixed"):
                fs = trace[fix_key]
                setattr(ali, fix_key, gen.make_molecule(fs, positions=(np.array(fs["positions"]) + np.array([0.3, -0.2, 0.1])).tolist()))
    except Exception as e:
        ctx.violate("C06", "reassignment-refused", f"re-assigning another conformation of the same molecule raised {type(e).__name__}: {e}")
        return
    ini_s, ini_e = mol_snapshot(ali.start), mol_snapshot(ali.end)
    old_sf, old_ss = Alignment.STEPS_FACTOR, Alignment.SIGMA_SCALE
    Alignment.STEPS_FACTOR, Alignment.SIGMA_SCALE = trace["steps_factor"], trace["sigma_scale"]
    try:
        with RandomSeam(ctx, (trace["np_seed"] + 1) % (2 ** 32), log=False):
            if restr is None:
                ali.align_molecules(restrictions=None, deformation_types=deform, ignore_hydrogens=trace["ignore_h"],
                                    auto_guess_protein_restrictions=bool(trace.get("auto_guess", True)))
            else:
                ali.align_molecules(restrictions=list(restr), deformation_types=deform, ignore_hydrogens=trace["ignore_h"])
    except Exception as e:
        ctx.violate("C06", "alignment-raised", f"second alignment on the same object raised {type(e).__name__}: {e}", key=type(e).__name__)
        return
    finally:
        Alignment.STEPS_FACTOR, Alignment.SIGMA_SCALE = old_sf, old_ss
    ctx.probe("second_alignment_after_reassignment")
    check_c06(trace, ctx, ali, ini_s, ini_e, start_fixed, tree_mobile, deform, mobile_spec)
    return ali


class _NullCtx:
    def fault(self, *a, **k):
        pass

    def probe(self, *a, **k):
        pass


def _final(trace, ali, info):
    if trace["mode"] == "align":
        return [np.array(ali.start.atoms_positions), np.array(ali.end.atoms_positions)]
    return [info.get("returned", np.zeros(0))]


def _drive(trace, ali, restr, deform, ctx, B, info, watch):
    import gaddlemaps._alignment as A
    try:
        if trace["mode"] == "align":
            forms = trace.get("forms") or {}
            d_arg = deform if deform is None or forms.get("deform") != "list" else list(deform)
            if restr is None:
                ali.align_molecules(restrictions=None, deformation_types=d_arg, ignore_hydrogens=trace["ignore_h"],
                                    auto_guess_protein_restrictions=bool(trace.get("auto_guess", True)))
            elif not restr and forms.get("omit_empty") and len(ali.start.resnames) == 1:
                # no restraints: the argument left at its default (single-residue molecules: nothing is guessed)
                ali.align_molecules(deformation_types=d_arg, ignore_hydrogens=trace["ignore_h"])
            else:
                r_arg = [list(x) for x in restr] if forms.get("restr") == "lists" else list(restr)
                ali.align_molecules(restrictions=r_arg, deformation_types=d_arg, ignore_hydrogens=trace["ignore_h"])
        else:
            # direct drive of the optimiser entry point with the inputs the alignment would build
            ns, ne = len(ali.start), len(ali.end)
            fixed, mobile = (ali.start, ali.end) if ns >= ne else (ali.end, ali.start)
            rl = restr or []
            r = [tuple(x) for x in rl] if ns >= ne else [tuple(x[::-1]) for x in rl]
            sim = deform if deform is not None else ((0, 1, 2) if len(mobile) >= 2 else (0,))
            A.minimize_molecules(fixed.atoms_positions, mobile.atoms_positions, mobile.geometric_center,
                                 trace["sigma_scale"], trace["n_steps"], r, mobile.bonds_distance,
                                 float(trace.get("displacement") or 0.2) * float(trace.get("unit_scale") or 1.0), sim)
        return "ok"
    except ExtraDraw:
        return "extra-draw"
    except RecursionError:
        raise
    except Exception as e:
        import traceback
        ctx.violate(trace["focus"] if trace["focus"] in ("C06", "C09") else "C06", "alignment-raised",
                    f"{type(e).__name__}: {e}\n" + "".join(traceback.format_exc()[-900:]), key=type(e).__name__)
        return "raised:" + type(e).__name__


def check_c06(trace, ctx, ali, ini_s, ini_e, start_fixed, tree_mobile, deform, mobile_spec):
    P = "C06"
    fin_s, fin_e = mol_snapshot(ali.start), mol_snapshot(ali.end)
    for name, ini, fin in (("start", ini_s, fin_s), ("end", ini_e, fin_e)):
        if ini[4] != fin[4] or ini[5] != fin[5] or len(ini[0]) != len(fin[0]):
            ctx.violate(P, "names-or-order-changed", f"atom order / names of the {name} molecule changed")
            return
        if not np.all(np.isfinite(fin[0])):
            ctx.violate(P, "non-finite", f"the {name} molecule has non-finite coordinates after alignment")
            return
    fixed_ini, fixed_fin = (ini_s, fin_s) if start_fixed else (ini_e, fin_e)
    mob_ini, mob_fin = (ini_e, fin_e) if start_fixed else (ini_s, fin_s)
    scale = max(1.0, float(np.max(np.abs(fixed_ini[0]))), float(np.max(np.abs(fixed_fin[0]))),
                float(np.max(np.abs(mob_fin[0]))))
    if start_fixed:
        diff = fixed_fin[0] - fixed_ini[0]
        if float(np.max(np.abs(diff - diff[0]))) > 1e-9 * max(1.0, scale / 1000.0):
            ctx.violate(P, "fixed-molecule-deformed", "the molecule with more atoms (start) was not merely translated")
    else:
        if not np.array_equal(fixed_fin[0], fixed_ini[0]):
            ctx.violate(P, "end-molecule-touched", "the end molecule has more atoms and must stay untouched, but its "
                                                   "coordinates changed")
    single_atom_moves = (deform is None and len(mob_ini[0]) >= 2 and len(fixed_ini[0]) >= 2) or (deform is not None and 2 in deform)
    if len(ali.end) == 1:
        single_atom_moves = False
    if tree_mobile:
        for i, j in mobile_spec["edges"]:
            d0 = float(np.linalg.norm(mob_ini[0][i] - mob_ini[0][j]))
            d1 = float(np.linalg.norm(mob_fin[0][i] - mob_fin[0][j]))
            if abs(d0 - d1) > 1e-9 * max(1.0, d0):
                ctx.violate(P, "bond-length-changed", f"bond {i}-{j} of the mobile molecule went from {d0!r} to {d1!r} nm")
                break
    if not single_atom_moves and len(mob_ini[0]) > 1:
        D0 = np.linalg.norm(mob_ini[0][:, None] - mob_ini[0][None, :], axis=-1)
        D1 = np.linalg.norm(mob_fin[0][:, None] - mob_fin[0][None, :], axis=-1)
        if float(np.max(np.abs(D0 - D1))) > 1e-9 * max(1.0, scale / 1000.0):
            ctx.violate(P, "rigid-only-deformed", "single-atom moves are disabled but interatomic distances of the mobile "
                                                  "molecule changed")
        ctx.probe("rigid_only_run")


def check_acceptance_corners(trace, ctx):
    """The acceptance test the search uses, at the corners a search reaches only rarely: equal measures (always accepted)
    including both exactly 0, a lower measure of 0, and a worse proposal against a held measure of 0 (probability 0).  Run
    under the random seam with the run's own seed, so the verdicts replay."""
    import gaddlemaps._backend as B
    import warnings
    r2 = _random.Random(trace["np_seed"])
    e = r2.choice([1.0, 3.7e-12, 2.5e8, 5e-324])
    with RandomSeam(ctx, (trace["np_seed"] + 7) % (2 ** 32), log=False), warnings.catch_warnings():
        warnings.simplefilter("ignore")
        for e0, e1, want in ((0.0, 0.0, True), (e, e, True), (e, 0.0, True), (np.float64(0.0), np.float64(0.0), True),
                             (np.float64(e), np.float64(e), True), (0.0, e, False), (np.float64(0.0), np.float64(e), False)):
            try:
                got = bool(B.accept_metropolis(e0, e1))
            except Exception as ex:
                ctx.violate("C09", "metropolis-rule", f"the acceptance test raised {type(ex).__name__} for E_held={e0!r} "
                                                      f"E_new={e1!r}: {ex}", key="corner-raised")
                return
            if got != want:
                ctx.violate("C09", "metropolis-rule", f"E_held={e0!r} E_new={e1!r}: expected "
                                                      f"{'accept' if want else 'reject'}, got {'accept' if got else 'reject'} "
                                                      f"(acceptance test called on its own)", key="corner")
                return
    ctx.probe("acceptance_corners_judged")


def check_c09_end(trace, ctx, watch, info):
    if trace["focus"] == "C09" and trace["np_seed"] % 4 == 0:
        check_acceptance_corners(trace, ctx)
    if "args" not in info:
        ctx.probe("optimiser_not_reached")
        return
    if watch.unobservable:
        ctx.probe("loop_unobservable")
        return
    if watch.phase == "init":
        ctx.probe("loop_unobservable")
        return
    if watch.iterations == 0 and watch.orphan_chi2 > 0:
        # proposals were evaluated, but no iteration was recognised through the names this monitor watches (the loop was
        # renamed or restructured): not judged, and counted
        ctx.probe("loop_unobservable")
        return
    ret = info.get("returned")
    if ret is None:
        return
    if watch.held is None or ret.shape != watch.held.shape or not np.array_equal(ret, watch.held):
        ctx.violate("C09", "returned-not-last-accepted", "the search did not return the last accepted configuration")
    if watch.counter != watch.n_steps:
        ctx.violate("C09", "stopped-early", f"the search stopped after {watch.counter} consecutive steps without a new lowest "
                                            f"measure; the budget is {watch.n_steps}")
    printed = re.findall(r"Chi2 = \s*([0-9.eE+-]+|nan|inf)", info.get("stdout", ""))
    want = ["%10.9f" % v for v in watch.expected_prints]
    got = [p.strip() for p in printed]
    if [w.strip() for w in want] != got:
        ctx.probe("new_minimum_report_differs")        # (what the search prints is not part of the statement: counted only)
