"""Engine `grofile` (C13, C14): GroFile writer sessions on the simulated disk.

A session configures a writer in a scheduler-chosen order, writes records, closes.  The file
seam records every write/seek/close; from that log the disk image at any crash point
(operation boundary or torn write) is rebuilt and fed to the real reader (C14), and the
complete image is compared with the session by the real reader and by an independent
fixed-width parser (C13)."""
import math
import os
import string

import numpy as np

from sim import gen
from sim.core import HarnessError
from sim.seams import FileSeam, image_after

NAME = "grofile"

NAME_CHARS = string.ascii_uppercase + string.digits + "'*+-_#"
SAFE_LETTERS = "ABCDFGHIJKLMNOPQRSTUVWXYZ"   # a letter that cannot be part of a float literal (no E)


WIDE_CHARS = NAME_CHARS + string.ascii_lowercase + ".,:;@/{}%\\$&"


def _name(rng, maxlen=5, minlen=1, wide=False):
    n = rng.randint(minlen, maxlen)
    if wide and rng.random() < 0.35:
        # any non-blank characters: lower case, dots, names without a letter ("1", "2+", "1.5")
        return "".join(rng.choice(WIDE_CHARS) for _ in range(n))
    chars = [rng.choice(NAME_CHARS) for _ in range(n)]
    chars[rng.randrange(n)] = rng.choice(SAFE_LETTERS)
    s = "".join(chars)
    if s.lstrip("+-").lower() in ("inf", "nan"):
        s = "X" + s[1:]
    return s


def _number(rng):
    c = rng.random()
    if c < 0.45:
        return rng.randint(0, 2000)
    if c < 0.7:
        return rng.choice([99997, 99998, 99999, 100000, 100001, 199997, 199998, 199999, 200000, 0, 1, 9999, 10000])
    if c < 0.85:
        return rng.randint(0, 99999)
    return rng.randint(100000, 10 ** 7)


def _coord(rng, d, int_chars):
    """A value that fits '%{d+5}.{d}f' style fields after rounding: integer part incl. sign in int_chars."""
    hi = 10 ** int_chars - 1            # positive: int_chars digits
    lo = -(10 ** (int_chars - 1) - 1)   # negative: sign + int_chars-1 digits
    c = rng.random()
    scale = 10 ** d
    if c < 0.5:
        q = rng.randint(-20 * scale, 20 * scale)
    elif c < 0.8:
        q = rng.randint(lo * scale - (scale - 1) + 1, hi * scale + (scale - 1) - 1)
    elif c < 0.9:
        q = rng.choice([0, 1, -1, hi * scale + scale - 2, lo * scale - scale + 2])
    else:
        q = rng.randint(-scale, scale)
    q = max(lo * scale - (scale - 1) + 1, min(hi * scale + (scale - 1) - 1, q))
    m = rng.random()
    if m < 0.3:
        delta = 0.0
    elif m < 0.8:
        delta = rng.uniform(-0.49, 0.49)
    else:
        delta = rng.choice([-0.5, 0.5])      # exactly on / one ulp from a rounding boundary
    v = (q + delta) / scale
    if m >= 0.8:
        v = math.nextafter(v, rng.choice([-math.inf, math.inf]))
    # after rounding the value may become q-1, q or q+1: all fit by construction
    return float(v)


def gen_session(rng, tier, for_crash=False):
    big = rng.random() < (0.08 if tier == "quick" else 0.15)
    n = rng.randint(31, 300) if big else rng.randint(1, 30)
    if for_crash and tier == "quick":
        n = rng.randint(1, 14) if not big else rng.randint(15, 60)
    if for_crash and rng.random() < 0.004:
        # thousands of records (crash points are then sampled, with every power of two and its neighbours among them)
        n = rng.choice([rng.randint(1020, 1030), rng.randint(4090, 4200), rng.randint(8185, 8300)])
    if not for_crash and rng.random() < 0.003:
        # outputs of 100 KiB .. 2 MiB (buffer and chunk limits of the writer / reader lie at 64 KiB and 1 MiB)
        n = rng.choice([rng.randint(1500, 2500), rng.randint(15500, 17500), rng.randint(22000, 30000)])
    vel = rng.random() < 0.4
    fmt = None
    d = 3
    if rng.random() < 0.5:
        d = rng.randint(1, 6)
        fmt = [d + 5, d]
    title = None
    if rng.random() < 0.85:
        L = rng.choice([1, 3, 20, 60, 200])
        alphabet = string.ascii_letters + string.digits + " .,;:()[]=+-_/'#%"
        title = "".join(rng.choice(alphabet) for _ in range(rng.randint(1, L)))
        if not title.strip():
            title = "t" + title
        if rng.random() < 0.2:
            title = title + "\n"
        if rng.random() < 0.15:
            title = str(rng.randint(0, 500))           # a title that looks like an atom count
        elif rng.random() < 0.04:
            title = rng.choice([" ", "\t", "   "])     # blank but not empty
        elif rng.random() < 0.08:
            # characters that take more than one byte in the file
            title = title[:len(title) // 2] + rng.choice(["\u03c3 = 0.34 nm", "\u00c5", "\u03b5\u03b5", "caf\u00e9 \u2013 25 \u00b0C"]) + title[len(title) // 2:]
    box = None
    kind = rng.choice(["none", "vec", "diag", "tric", "tric", "vec"])
    box_form = rng.choice(["float_array", "float_array", "list", "int_array"])
    if kind == "vec":
        box = [round(rng.uniform(0.5, 60), rng.randint(0, 7)) for _ in range(3)]
        if rng.random() < 0.15:
            box = [round(rng.uniform(100, 999), 5) for _ in range(3)]       # edges of three digits, all five decimals in use
        if box_form == "int_array":
            box = [float(max(1, round(x))) for x in box]
    elif kind == "diag":
        v = [rng.uniform(0.5, 60) for _ in range(3)]
        box = np.diag(v).tolist()
    elif kind == "tric":
        v = [rng.uniform(0.5, 60) for _ in range(3)]
        b = np.diag(v)
        b[1, 0] = rng.uniform(-0.5, 0.5) * v[0]
        b[2, 0] = rng.uniform(-0.5, 0.5) * v[0]
        b[2, 1] = rng.uniform(-0.5, 0.5) * v[1]
        if rng.random() < 0.3:
            b[0, 1], b[0, 2], b[1, 2] = (rng.uniform(-2, 2) for _ in range(3))
        box = b.tolist()
    declared = rng.random() < 0.45
    records = []
    resid = _number(rng)
    wide = not for_crash          # (C14 needs names that cannot be read as numbers, see DESIGN)
    resname = _name(rng, wide=wide)
    atomid = _number(rng)
    for i in range(n):
        if rng.random() < 0.3:
            resid = _number(rng) if rng.random() < 0.3 else resid + 1
            resname = _name(rng, wide=wide)
        atomid = _number(rng) if rng.random() < 0.1 else atomid + 1
        rec = [resid, resname, _name(rng, wide=wide), atomid] + [_coord(rng, d, 4) for _ in range(3)]
        if vel:
            rec += [_coord(rng, d + 1, 3) for _ in range(3)]
        records.append(rec)
    config = [k for k, v in (("title", title), ("box", box), ("fmt", fmt), ("natoms", declared)) if v]
    rng.shuffle(config)
    box_late = bool(box) and rng.random() < 0.2
    chunks = None
    if n >= 2 and rng.random() < 0.25:
        # the records arrive in several pieces: writelines() chunks and single writeline() calls in any mixture
        cuts = sorted(rng.sample(range(1, n), rng.randint(1, min(4, n - 1))))
        chunks = [[b - a, rng.choice(["writelines", "writelines", "writeline"])] for a, b in zip([0] + cuts, cuts + [n])]
    # the count may also be declared only after some records have gone out (it is known once the selection is done)
    natoms_after = rng.randint(1, n) if declared and rng.random() < 0.2 else None
    return {"title": title, "box": box, "fmt": fmt, "declared": declared, "config": config, "natoms_after": natoms_after,
            "box_form": box_form if kind == "vec" or box_form != "int_array" else "float_array",
            "box_late": box_late, "records": records, "use_with": rng.random() < 0.5,
            "writelines": rng.random() < 0.3, "tuple_records": rng.random() < 0.3, "chunks": chunks}


def generate(rng, tier, focus):
    tr = {"focus": focus, "session": gen_session(rng, tier, for_crash=(focus == "C14"))}
    if focus == "C14":
        tr["torn_seed"] = rng.randrange(2 ** 32)
        # a share of runs truncates a shipped file instead of a generated one
        if rng.random() < (0.06 if tier == "quick" else 0.1):
            tr["shipped"] = rng.choice(SHIPPED)
            tr["max_offsets"] = 1500 if tier == "quick" else 6000
        tr["max_bytes_exhaustive"] = 8192
    return tr


SHIPPED = ["BF4_AA.gro", "BF4_CG.gro", "BMIM_AA.gro", "CUR_AA.gro", "CUR_map.gro", "DNA_AA.gro", "DNA_map.gro",
           "DPSM_AA.gro", "Protein_AA.gro", "Protein_CG.gro", "VTE_AA.gro", "VTE_map.gro", "popc-AA.gro",
           "system_bmimbf4_cg.gro"]


def abbreviate(trace):
    s = dict(trace["session"])
    s["n_records"] = len(s["records"])
    s["records"] = s["records"][:3]
    out = dict(trace)
    out["session"] = s
    return out


OPS_REMOVABLE = False


def simplify(trace):
    s = trace["session"]
    recs = s["records"]
    if "shipped" in trace:
        return
    # fewer records
    n = len(recs)
    for cut in (n // 2, n - 1):
        if 1 <= cut < n:
            for part in (recs[:cut], recs[n - cut:]):
                t = dict(trace)
                t["session"] = dict(s, records=part)
                yield t
    for key, val in (("title", None), ("box", None), ("declared", False), ("natoms_after", None), ("box_late", False),
                     ("use_with", False), ("writelines", False), ("tuple_records", False), ("chunks", None)):
        if s.get(key):
            ns = dict(s)
            ns[key] = val
            ns["config"] = [c for c in s["config"] if c != {"declared": "natoms"}.get(key, key)]
            if key == "box":
                ns["box_late"] = False
            t = dict(trace)
            t["session"] = ns
            yield t
    # rounder numbers / names
    for i, r in enumerate(recs):
        simple = [1, "R", "A", 1] + [round(x, 1) for x in r[4:]]
        if r[:4] != simple[:4]:
            for j in range(4):
                if r[j] != simple[j]:
                    nr = list(r)
                    nr[j] = simple[j]
                    t = dict(trace)
                    t["session"] = dict(s, records=recs[:i] + [nr] + recs[i + 1:])
                    yield t


# --------------------------------------------------------------------------
# independent fixed-width parser
# --------------------------------------------------------------------------

def parse_image(data: bytes):
    text = data.decode("utf-8")
    lines = text.split("\n")
    title = lines[0]
    n = int(lines[1])
    recs = []
    for l in lines[2:2 + n]:
        ndots = l[20:].count(".")
        if ndots not in (3, 6) or (len(l) - 20) % ndots:
            raise ValueError("bad atom line %r" % l)
        w = (len(l) - 20) // ndots
        vals = [float(l[20 + k * w:20 + (k + 1) * w]) for k in range(ndots)]
        recs.append([int(l[0:5]), l[5:10].strip(), l[10:15].strip(), int(l[15:20])] + vals)
    boxline = lines[2 + n]
    nums = [float(x) for x in boxline.split()]
    box = np.zeros(9)
    for idx, v in zip((0, 4, 8, 1, 2, 3, 5, 6, 7), nums):
        box[idx] = v
    return title, n, recs, box.reshape(3, 3), lines[2:2 + n]


def expected_box(box):
    if box is None:
        return np.zeros((3, 3))
    b = np.array(box, dtype=float)
    if b.shape == (3,):
        return np.diag(b)
    return b


# --------------------------------------------------------------------------
# the writer session
# --------------------------------------------------------------------------

def run_session(session, path, seam, ctx, prop):
    """Drive a GroFile writer; returns True if it completed."""
    from gaddlemaps.parsers import GroFile
    rel_cwd = None
    if prop == "C13" and len(session["records"]) % 7 == 3:
        # opened through a RELATIVE name; the working directory is another one by the time the writer is closed
        rel_cwd = os.getcwd()
        os.chdir(os.path.dirname(path))
        f = GroFile(os.path.basename(path), "w")
        ctx.probe("relative_path_cwd_changed_before_close")
    else:
        f = GroFile(path, "w")
    fid = len(seam.files) - 1

    def set_box():
        b = session["box"]
        form = session.get("box_form", "float_array")
        if form == "int_array":
            f.box_matrix = np.array(b).astype(np.int64)
            ctx.probe("box_as_integer_array")
        elif form == "list" and np.array(b).shape == (3, 3):
            # (a plain nested list is not an array: handed over as an array built from it without a dtype)
            f.box_matrix = np.array([list(r) for r in b])
        else:
            f.box_matrix = np.array(b, dtype=float)

    for item in session["config"]:
        if item == "title":
            f.comment = session["title"]
        elif item == "box" and not session["box_late"]:
            set_box()
        elif item == "fmt":
            f.position_format = tuple(session["fmt"])
        elif item == "natoms" and not session.get("natoms_after"):
            f.natoms = len(session["records"])
    recs = [tuple(r) if session.get("tuple_records") else list(r) for r in session["records"]]
    if len(session["records"]) % 4 == 1:
        # numbers as numpy scalars (what records taken from arrays look like)
        recs = [type(r)([np.int64(r[0]), r[1], r[2], np.int64(r[3])] + [np.float64(x) for x in r[4:]]) for r in recs]
        ctx.probe("numpy_scalars_in_records")
    if len(session["records"]) % 5 == 2 and not session.get("fmt") and all(r[0] <= 99999 and r[3] <= 99999 for r in session["records"]):
        # the writer also takes pre-formatted fixed-width lines (default position format)
        def fmt_line(r):
            l = "%5d%-5s%5s%5d" % (r[0], r[1], r[2], r[3]) + "".join("%8.3f" % x for x in r[4:7])
            return l + "".join("%8.4f" % x for x in r[7:10])
        recs = [fmt_line(r) for r in session["records"]]
        ctx.probe("records_as_formatted_strings")
    if session.get("natoms_after"):
        k_ = min(session["natoms_after"], len(recs))
        for r in recs[:k_]:
            f.writeline(r)
        f.natoms = len(recs)
        for r in recs[k_:]:
            f.writeline(r)
        ctx.probe("count_declared_after_some_records")
    elif session.get("chunks") and sum(c[0] for c in session["chunks"]) == len(recs):
        pos = 0
        for size, how in session["chunks"]:
            part = recs[pos:pos + size]
            pos += size
            if how == "writelines":
                f.writelines(part)
            else:
                for r in part:
                    f.writeline(r)
        ctx.probe("records_written_in_chunks")
    elif session["writelines"]:
        f.writelines(recs)
    else:
        for r in recs:
            f.writeline(r)
    if session["box_late"]:
        set_box()
    try:
        if rel_cwd is not None:
            os.chdir(rel_cwd)
        if session["use_with"]:
            with f:
                pass
        else:
            f.close()
    finally:
        if rel_cwd is not None:
            os.chdir(rel_cwd)
    return fid


def execute(trace, ctx):
    focus = trace["focus"]
    session = trace["session"]
    d = ctx.tmpdir()
    if focus == "C14" and "shipped" in trace:
        return truncate_shipped(trace, ctx, d)
    path = os.path.join(d, "out.gro")
    seam = FileSeam(ctx)
    with seam:
        try:
            fid = run_session(session, path, seam, ctx, focus)
        except Exception as e:  # the property says every such session must succeed
            ctx.op("session", "raised")
            import traceback
            ctx.violate("C13", "writer-raised", f"writer session raised {type(e).__name__}: {e}",
                        key=type(e).__name__)
            if focus == "C14":
                # C14 needs a complete session; nothing to enumerate -- and a check that cannot enumerate must not stay green
                ctx.violate("C14", "complete-file-rejected", f"no complete file to cut: the writer session raised "
                                                             f"{type(e).__name__}: {e}", key="session")
                return
            return
    ctx.op("session", "closed")
    ops = seam.ops_of(fid)
    complete = image_after(ops, len(ops))
    with open(path, "rb") as fh:
        on_disk = fh.read()
    if on_disk != complete:
        raise HarnessError("file seam: reconstructed image differs from the file on disk")
    if focus == "C13":
        check_roundtrip(session, complete, path, ctx)
    else:
        check_crash_points(trace, session, ops, complete, d, ctx)


# --------------------------------------------------------------------------
# C13
# --------------------------------------------------------------------------

def _wrap_ok(written, read):
    if written <= 99999:
        return read == written
    return 0 <= read <= 99999


def check_roundtrip(session, image, path, ctx):
    from gaddlemaps.parsers import GroFile
    P = "C13"
    recs = session["records"]
    n = len(recs)
    d = session["fmt"][1] if session["fmt"] else 3
    vel = len(recs[0]) == 10
    ctx.nontrivial = True
    if session["fmt"]:
        ctx.probe("custom_format")
    if vel:
        ctx.probe("velocities")
    if session["declared"]:
        ctx.probe("declared_count")
    if any(r[0] >= 99999 or r[3] >= 99999 for r in recs):
        ctx.probe("number_ge_99999")
    if session["box"] is not None and np.array(session["box"]).shape == (3, 3) and \
            np.any(np.array(session["box"]) - np.diag(np.diag(np.array(session["box"])))):
        ctx.probe("triclinic_box")
    # (a) independent parser on the seam's image
    try:
        title_i, n_i, recs_i, box_i, raw_lines = parse_image(image)
    except Exception as e:
        ctx.violate(P, "image-unparseable", f"independent fixed-width parser cannot read the written file: {e!r}")
        return
    lens = {len(l.encode()) for l in raw_lines}
    if len(lens) > 1:
        ctx.violate(P, "line-length", f"atom lines of the written file have different byte lengths: {sorted(lens)}")
    # layout as the FILE has it: field width and decimals of the position and of the velocity columns
    l0 = raw_lines[0]
    nd = 6 if vel else 3
    w0 = (len(l0) - 20) // nd
    dec_of = lambda k: w0 - 1 - l0[20 + k * w0:20 + (k + 1) * w0].index(".")
    try:
        d_pos, d_vel = dec_of(0), (dec_of(3) if vel else None)
    except ValueError:
        ctx.violate(P, "line-width", f"atom line {l0!r} does not consist of {nd} equal fields with a decimal point each")
        return
    if (w0, d_pos) != (d + 5, d) or (len(l0) - 20) % nd:
        ctx.violate(P, "line-width", f"position columns are {w0} wide with {d_pos} decimals; the position format is "
                                     f"({d + 5}, {d}) (atom lines of {sorted(lens)} bytes)")
    # nothing after the box line but the end of the file
    tail = image.decode("utf-8").split("\n")[3 + n:]
    if tail != [""]:
        ctx.violate(P, "file-tail", f"the written file does not end with its box line and one newline: {tail[:3]!r} follows")
    # (b) the real reader
    try:
        r = GroFile(path)
        how = len(recs) % 3
        if how == 0:
            got = r.readlines()
        elif how == 1:
            got = [line for line in r]
        else:
            got = []
            for _ in range(r.natoms):
                got.append(next(r))
            # random access must agree with sequential reading
            nrec = len(recs)
            for k in sorted({0, nrec - 1, nrec // 2, (nrec * 7 + 3) % nrec, (nrec * 13 + 1) % nrec}, reverse=(nrec % 2 == 0)):
                r.seek_atom(k)
                if tuple(next(r)) != tuple(got[k]):
                    ctx.violate(P, "random-access", f"seek_atom({k}) + next returned another record than sequential reading")
                    break
                if k + 1 < nrec and tuple(next(r)) != tuple(got[k + 1]):
                    ctx.violate(P, "random-access", f"the record after seek_atom({k}) is not record {k + 1}")
                    break
        natoms = r.natoms
        box = np.array(r.box_matrix, dtype=float)
        comment = r.comment
        r.close()
    except Exception as e:
        ctx.violate(P, "reader-raised", f"reading back the written file raised {type(e).__name__}: {e}")
        return
    for who, gn, grecs, gbox, gtitle in (("reader", natoms, got, box, comment), ("independent-parser", n_i, recs_i, box_i, title_i)):
        if gn != n or len(grecs) != n:
            ctx.violate(P, "record-count", f"{who}: wrote {n} records, read natoms={gn} / {len(grecs)} records")
            continue
        for i, (w, g) in enumerate(zip(recs, grecs)):
            g = list(g)
            if len(g) != len(w):
                ctx.violate(P, "record-shape", f"{who}: record {i} has {len(g)} fields, wrote {len(w)}")
                break
            if g[1] != w[1] or g[2] != w[2]:
                ctx.violate(P, "names", f"{who}: record {i} names {g[1]!r},{g[2]!r} != written {w[1]!r},{w[2]!r}")
                break
            if not _wrap_ok(w[0], g[0]) or not _wrap_ok(w[3], g[3]):
                ctx.violate(P, "numbers", f"{who}: record {i} numbers written ({w[0]},{w[3]}) read ({g[0]},{g[3]})",
                            key="wrap")
                break
            tol_p = 0.5 * 10 ** (-d) * (1 + 1e-9) + 1e-12
            tol_v = 0.5 * 10 ** (-(d_vel if d_vel is not None else d + 1)) * (1 + 1e-9) + 1e-12
            bad = [k for k in range(4, 7) if abs(g[k] - w[k]) > tol_p]
            bad += [k for k in range(7, len(w)) if abs(g[k] - w[k]) > tol_v]
            if bad:
                ctx.violate(P, "values", f"{who}: record {i} field {bad[0]} written {w[bad[0]]!r} read {g[bad[0]]!r} (decimals {d})")
                break
        eb = expected_box(session["box"])
        if gbox.shape != (3, 3) or np.max(np.abs(gbox - eb)) > 5e-6 * (1 + 1e-6) + 1e-9:
            ctx.violate(P, "box", f"{who}: box written {eb.tolist()} read {np.array(gbox).tolist()}")
        want_title = session["title"] if session["title"] is not None else None
        if want_title is not None:
            a = gtitle[:-1] if gtitle.endswith("\n") else gtitle
            b = want_title[:-1] if want_title.endswith("\n") else want_title
            if a != b:
                ctx.violate(P, "title", f"{who}: title written {want_title!r} read {gtitle!r}")
    ctx.op("roundtrip", f"d{d}v{int(vel)}c{int(session['declared'])}b{0 if session['box'] is None else 1}n{min(n, 40)}")


# --------------------------------------------------------------------------
# C14
# --------------------------------------------------------------------------

class OpenedButUnreadable(list):
    """GroFile(path) succeeded (no error on opening) but reading the records raised."""


def try_read(path, data):
    """Returns None if OPENING the image raises (the property: 'opening the partial file raises an error'),
    else the list of records it returned (an OpenedButUnreadable marker if reading them raised)."""
    from gaddlemaps.parsers import GroFile
    if data is not None:
        with open(path, "wb") as fh:
            fh.write(data)
    try:
        r = GroFile(path)
    except Exception:
        # the same image handed over as an already opened file must be refused as well
        fh = None
        try:
            fh = open(path)
            r2 = GroFile(fh)
        except Exception:
            return None
        finally:
            try:
                if fh is not None and not fh.closed:
                    fh.close()
            except Exception:
                pass
        bad = OpenedButUnreadable()
        bad.how = "open file accepted what the path refused"
        return bad
    try:
        recs = r.readlines()
    except Exception:
        recs = OpenedButUnreadable()
    try:
        r._file.close()
    except Exception:
        pass
    if not isinstance(recs, OpenedButUnreadable):
        # an accepted image must give the same records through every way of reading them
        for how in ("iterate", "next"):
            try:
                r2 = GroFile(path)
                if how == "iterate":
                    alt = [line for line in r2]
                else:
                    alt = [next(r2) for _ in range(r2.natoms)]
                r2._file.close()
            except Exception:
                alt = None
            if alt is None or not _same_records(alt, recs):
                bad = OpenedButUnreadable()
                bad.how = how
                return bad
    return recs


def _same_records(a, b):
    if len(a) != len(b):
        return False
    for x, y in zip(a, b):
        if tuple(x) != tuple(y):
            return False
    return True


def _reference_differs(full, complete):
    """The library's reading of the COMPLETE file against the independent fixed-width parser (names, numbers, values): the
    yardstick every accepted truncation is measured with must itself be the file's records."""
    try:
        _t, n_i, recs_i, _b, _raw = parse_image(complete)
    except Exception:
        return None               # (files the simple parser cannot read, e.g. dots in unusual places: not judged here)
    if len(full) != n_i:
        return f"{len(full)} records, the file has {n_i}"
    for k, (a, b) in enumerate(zip(full, recs_i)):
        a = list(a)
        if len(a) != len(b) or a[:4] != b[:4] or any(abs(float(x) - float(y)) > 1e-9 for x, y in zip(a[4:], b[4:])):
            return f"record {k}: {a} vs file {b}"
    return None


def check_crash_points(trace, session, ops, complete, d, ctx):
    import random
    P = "C14"
    rng = random.Random(trace["torn_seed"])
    img_path = os.path.join(d, "crash.gro")
    full = try_read(img_path, complete)
    if full is None or len(full) != len(session["records"]):
        ctx.violate(P, "complete-file-rejected", "the complete file is not readable; nothing to compare truncations with")
        return
    diff = _reference_differs(full, complete)
    if diff:
        ctx.violate(P, "accepted-differs", f"the complete file is read as something else than its records: {diff}", key="complete")
        return
    n = len(session["records"])
    # byte offset where the box line of the complete file starts
    lines = complete.split(b"\n")
    box_start = len(lines[0]) + 1 + len(lines[1]) + 1 + sum(len(l) + 1 for l in lines[2:2 + n])
    last_write_idx = max(i for i, (k, a) in enumerate(ops) if k == "write")
    n_images = 0

    def judge(data, label, must_reject):
        nonlocal n_images
        n_images += 1
        got = try_read(img_path, data)
        ctx.steps += 1
        if got is None:
            return "rejected"
        if must_reject:
            how = ("was opened without an error (reading its records then failed)" if isinstance(got, OpenedButUnreadable)
                   else f"was opened and returned {len(got)} atom records")
            ctx.violate(P, "partial-accepted", f"{label}: an incomplete file {how} "
                                               f"({len(data)} bytes of {len(complete)}; box line starts at {box_start})",
                        key=label.split(":")[0])
            return "accepted!"
        if isinstance(got, OpenedButUnreadable) or not _same_records(got, full):
            ctx.violate(P, "accepted-differs", f"{label}: accepted image returned records different from the complete file "
                                               f"({len(got)} vs {len(full)})", key=label.split(":")[0])
            return "accepted-wrong"
        return "accepted"

    def incomplete(data):
        """The statement's rule, whatever order the writer works in: the image lacks its atom count (the session was not
        closed) or ends at or before the first byte of the box line."""
        ls = data.split(b"\n")
        count_missing = len(ls) < 2 or not ls[1].strip()
        return count_missing or len(data) <= box_start

    # (1) every operation boundary (long sessions: a sample that contains the first and last 40, every boundary around a
    #     power-of-two number of records and 150 random ones)
    outcomes = []
    boundaries = range(len(ops) + 1)
    long_session = n > 300
    if long_session:
        per_rec = max(1, (len(ops) - 8) // max(1, n))
        keep = set(range(0, 40)) | set(range(len(ops) - 40, len(ops) + 1))
        for j in range(8, 15):
            for dlt in (-1, 0, 1):
                centre = (2 ** j + dlt) * per_rec
                keep |= set(range(max(0, centre - 3), min(len(ops), centre + 8)))
        keep |= set(rng.sample(range(len(ops) + 1), 150))
        boundaries = sorted(k for k in keep if 0 <= k <= len(ops))
        ctx.probe("long_session_sampled_crash_points")
    for k in boundaries:
        data = image_after(ops, k)
        must_reject = incomplete(data)
        res = judge(data, f"op-boundary:{k}/{len(ops)}", must_reject)
        ctx.fault("stop_before_op")
        outcomes.append(res[0])
    # (2) torn writes: every prefix for the header / count back-fill / box line, sampled record writes
    write_idx = [i for i, (k, a) in enumerate(ops) if k == "write"]
    close_phase = [i for i in write_idx if i >= last_write_idx - 3]      # count back-fill, box, newline
    header = write_idx[:4]
    sampled = rng.sample(write_idx, min(len(write_idx), 6))
    if long_session:
        header, close_phase = header[:2], close_phase[-2:]
    for i in sorted(set(close_phase + header + sampled)):
        data_len = len(ops[i][1].encode())
        for j in range(1, data_len):
            data = image_after(ops, i, torn_bytes=j)
            judge(data, f"torn-write:{i}+{j}", incomplete(data))
            ctx.fault("torn_write")
            if i >= last_write_idx - 3:
                ctx.probe("torn_in_close")
    # (3) byte-level truncation of the complete file
    size = len(complete)
    if size <= trace.get("max_bytes_exhaustive", 8192):
        offsets = range(size)
    else:
        offs = set(rng.sample(range(size), 3000 if not long_session else 250))
        starts = []
        pos = 0
        for l in lines:
            starts.append(pos)
            pos += len(l) + 1
        if long_session:
            starts = starts[:6] + starts[-6:]
        for pos in starts:
            for dlt in (-3, -2, -1, 0, 1, 2, 3):
                if 0 <= pos + dlt < size:
                    offs.add(pos + dlt)
        offsets = sorted(offs)
    for off in offsets:
        judge(complete[:off], f"truncate:{off}", off <= box_start)
        ctx.fault("byte_truncation")
    # (4) the writer aborts: the count was declared, fewer (or more) records were written, and close() runs anyway
    #     (an exception unwinding a `with` block); close must refuse, and what it leaves behind must not open
    abort_outcome = ""
    if n >= 2:
        abort_outcome = check_abort(session, d, ctx, rng)
    if n <= 300:
        abort_outcome += check_abandoned(session, d, ctx, rng)
    ctx.probe("images", n_images)
    ctx.nontrivial = True
    ctx.op("crash-enum", "".join(outcomes[-8:]) + f"n{min(n, 40)}c{int(session['declared'])}" + abort_outcome)


def check_abandoned(session, d, ctx, rng):
    """The writer object is DROPPED without close() (the caller's loop raised, the function returned, the program ended):
    writing stopped before the file was closed, so what is on disk must not open."""
    import gc
    from gaddlemaps.parsers import GroFile
    P = "C14"
    recs = session["records"]
    n = len(recs)
    declared = bool(session["declared"]) and rng.random() < 0.5
    k = rng.randint(1, n - 1) if (declared and n >= 2) else rng.randint(1, n)
    path = os.path.join(d, "abandoned.gro")
    over_existing = declared and rng.random() < 0.6
    stop_by_refusal = rng.random() < 0.5
    refused = False
    if not declared and rng.random() < 0.4:
        # names that look like numbers in the first records (residue "2", atom "14"): with no count declared the file
        # on disk has no count at all, so nothing in it can be taken for a complete system whatever the records look like
        recs = [list(r) for r in recs]
        for r_ in recs[:2]:
            r_[1], r_[2] = str(rng.randint(1, 99)), str(rng.randint(1, 999))
        ctx.probe("number_like_names_in_an_abandoned_file")
    try:
        if over_existing:
            # the path already holds the COMPLETE file of an earlier, identical session (a new frame written over the old one)
            f0 = GroFile(path, "w")
            _configure(f0, session)
            f0.natoms = n
            for r in recs:
                f0.writeline(list(r))
            f0.close()
            ctx.probe("writer_dropped_over_an_existing_complete_file")
        f = GroFile(path, "w")
        _configure(f, session)
        if declared:
            f.natoms = n
        for r in recs[:k]:
            f.writeline(list(r))
        if stop_by_refusal:
            # writing stops because the writer itself refuses the next record (a field missing, a coordinate that is not a
            # number, velocities on one record only); the caller's loop dies with that error and never closes
            nxt = list(recs[k % n])
            bad = {0: nxt[:5], 1: nxt[:4] + ["not-a-number"] + nxt[5:],
                   2: (nxt[:7] if len(nxt) == 10 else nxt + [0.1, 0.2, 0.3])}[rng.randrange(3)]
            try:
                f.writeline(bad)
                refused = False
            except Exception:
                refused = True
            ctx.probe("writer_refused_a_record_then_dropped" if refused else "odd_record_taken_by_the_writer")
        del f
        gc.collect()
    except Exception as e:
        ctx.violate("C13", "writer-raised", f"writing {k} records raised {type(e).__name__}: {e}")
        return "D?"
    ctx.fault("writer_object_dropped_without_close")
    got = try_read(path, None)
    if got is not None:
        ctx.violate(P, "abandoned-file-accepted", f"a writer was dropped without close() after {k} of {n} records (count "
                                                  f"{'declared' if declared else 'not declared'}"
                                                  f"{', the last thing it did was refuse a malformed record' if stop_by_refusal else ''}"
                                                  f"); the file it left behind opens "
                                                  f"without an error", key="declared" if declared else "undeclared")
        return "Dacc"
    return "D"


def check_abort(session, d, ctx, rng):
    from gaddlemaps.parsers import GroFile
    P = "C14"
    recs = session["records"]
    n = len(recs)
    mode = rng.choice(["fewer", "fewer", "more"])
    k = rng.randint(1, n - 1)
    declared = n if mode == "fewer" else k
    written = recs[:k] if mode == "fewer" else recs
    path = os.path.join(d, "abort.gro")
    use_with = rng.random() < 0.5
    raised = None
    try:
        if use_with:
            try:
                with GroFile(path, "w") as f:
                    _configure(f, session)
                    f.natoms = declared
                    for r in written:
                        f.writeline(list(r))
                    raise KeyboardInterrupt("simulated failure in the caller's loop")
            except KeyboardInterrupt:
                raised = "interrupt-only"
        else:
            f = GroFile(path, "w")
            _configure(f, session)
            f.natoms = declared
            for r in written:
                f.writeline(list(r))
            f.close()
    except Exception as e:
        raised = type(e).__name__
        try:
            f._file.close()
        except Exception:
            pass
    ctx.fault("abort_with_declared_count:" + mode)
    if raised is None or raised == "interrupt-only":
        if not use_with or raised is None:
            ctx.violate(P, "count-mismatch-not-refused", f"{len(written)} records were written with a declared count of "
                                                         f"{declared} and close() did not raise")
            return "A!"
    got = try_read(path, None)
    if got is not None:
        ctx.violate(P, "aborted-file-accepted", f"the writer was closed after {len(written)} of {declared} declared records "
                                                f"(close refused with {raised}); the file it left behind opens without an error",
                    key=mode)
        return "Aacc"
    ctx.probe("aborted_writer_rejected")
    return "A"


def _configure(f, session):
    if session["title"] is not None:
        f.comment = session["title"]
    if session["box"] is not None:
        f.box_matrix = np.array(session["box"], dtype=float)
    if session["fmt"]:
        f.position_format = tuple(session["fmt"])


def truncate_shipped(trace, ctx, d):
    import random
    P = "C14"
    import gaddlemaps
    src = gaddlemaps.DATA_FILES_PATH[trace["shipped"]]
    with open(src, "rb") as fh:
        complete = fh.read()
    rng = random.Random(trace["torn_seed"])
    img_path = os.path.join(d, "crash.gro")
    full = try_read(img_path, complete)
    if full is None:
        ctx.violate(P, "complete-file-rejected", f"shipped file {trace['shipped']} is not readable")
        return
    diff = _reference_differs(full, complete.replace(b"\r\n", b"\n"))
    if diff:
        ctx.violate(P, "accepted-differs", f"shipped file {trace['shipped']} is read as something else than its records: {diff}",
                    key="complete")
        return
    lines = complete.split(b"\n")
    n = int(lines[1])
    box_start = len(lines[0]) + 1 + len(lines[1]) + 1 + sum(len(l) + 1 for l in lines[2:2 + n])
    size = len(complete)
    offs = set()
    if size <= trace["max_offsets"]:
        offs = set(range(size))
    else:
        offs = set(rng.sample(range(size), trace["max_offsets"]))
        pos = 0
        bl = []
        for l in lines:
            bl.append(pos)
            pos += len(l) + 1
        for p in rng.sample(bl, min(len(bl), 200)) + bl[:4] + bl[-4:]:
            for dlt in (-2, -1, 0, 1, 2):
                if 0 <= p + dlt < size:
                    offs.add(p + dlt)
    for off in sorted(offs):
        got = try_read(img_path, complete[:off])
        ctx.fault("byte_truncation")
        ctx.steps += 1
        if got is None:
            continue
        if off <= box_start:
            ctx.violate(P, "partial-accepted", f"{trace['shipped']} truncated to {off} bytes (box line starts at {box_start}) "
                                               f"was accepted with {len(got)} records", key="shipped")
        elif not _same_records(got, full):
            ctx.violate(P, "accepted-differs", f"{trace['shipped']} truncated to {off} bytes: accepted with different records",
                        key="shipped")
    ctx.probe("shipped_file")
    ctx.nontrivial = True
    ctx.op("truncate-shipped", trace["shipped"])
