"""Engine registry and per-property check specifications."""
import importlib

_ENGINES = {}


def get_engine(name):
    if name not in _ENGINES:
        _ENGINES[name] = importlib.import_module("engines." + name)
    return _ENGINES[name]


REAL = "real code from the /repo working tree"

PROPERTIES = {}
NOT_APPLICABLE = {}
ENGINE_KINDS = {
    "directed": "directed workloads for the monitors of C07 / C08 / C17 (all labelled trees up to 6 or 7 atoms by run index, random graphs, calculators reused on unrelated configurations, closed-form relations of rotation matrices and frames): pure functions, seeded generation / enumeration only",
    "cli": "gaddlemaps._cli.main() in-process under the random seam vs the library workflow; sort_molecules / --auto with scheduler-chosen file-list and set-iteration orders (set seam on classify_files); the unmodified CLI in real subprocesses under different PYTHONHASHSEED values",
    "pipeline": "System + Manager + ExchangeMap + GroFile writer on generated multi-species worlds (real files, file seam on): life-cycle histories of add_end_molecule / calculate_exchange_maps / align_molecules / extrapolate_system incl. premature extrapolations; output taken from the file seam",
    "routing": "Alignment.align_molecules with the optimiser entry point replaced by a recording stub; Manager.align_molecules with Alignment.align_molecules replaced by a recording stub (real files); restraint guessers by enumeration",
    "system": "System recognition on generated files: scheduler-chosen topology load order with observers between loads and injected failing loads; instance list derived from the file as oracle",
    "alias": "operation histories over an object graph (molecules, copies, deep copies, residues, atoms, live views, System hand-outs through real files, Alignment-stored molecules) checked after every operation against an aliasing model",
    "grosys": "one SystemGro shared by several live iterators and one-shot indexed/sliced accesses; seeded scheduler decides which consumer steps next; independent parse of the file as oracle",
    "mc": "Alignment.align_molecules -> minimize_molecules -> python Monte-Carlo loop under the random seam (seeded stream + override script); call-through monitors on Chi2Calculator / accept_metropolis / move_mol_atom / find_atom_random_displ / rotation_matrix; reference model of the loop bookkeeping",
    "xmap": "one ExchangeMap under a generated call / rejection / mutation history; reference model of the map; fresh-map differential; in-situ monitor on every frame; random seam for the frame completion of 1-/2-atom references",
    "topo": "generated and shipped .itp files on the simulated disk: read_topology / MoleculeTop / are_connected against the generator's ground truth (stack budget as resource knob); read-write-read-write-read histories compared by an independent line classifier",
    "grofile": "GroFile writer sessions on a simulated disk (file seam: operation log, crash images, torn writes, byte truncation) read back by the real reader and an independent parser",
    "pbc": "seeded trajectories of two residues under a box; closed-form oracle (degenerate simulation: no schedule, no fault)",
}


def _reg(pid, **kw):
    PROPERTIES[pid] = kw


_reg("C19", engine="pbc", level="exploration",
     runs={"quick": 48000, "thorough": 1600000}, block=500,
     technique="seeded trajectory generation against a brute-force minimum-image oracle, run and replayed by the simulation harness (no schedule or fault dimension exists for this pure function)",
     level_text=("Sampled, not exhaustive: seeded trajectories (walks, lattice jumps, near-half-box placements) of two residues "
                 "under orthorhombic and triclinic boxes; every step is compared with an independent brute-force minimum over "
                 "periodic images plus symmetry / lattice-shift / inverse-flag relations.  Exploration is the honest level for a "
                 "continuous input space.  The box is also handed over as nested lists, an integer array, a Fortran-ordered array "
                 "or a strided view (and must not be modified); near-periodic-image placements (lattice shift + 1e-7..3e-3 nm)."),
     level_note=("Pure function of (two points, a matrix): the simulator contributes seeded generation, minimisation and replay "
                 "and nothing else (DESIGN.md sec. 7).  Trusted: numpy linear algebra in the oracle; tolerance 1e-9 relative to "
                 "the coordinate/box scale."),
     rule=("each run is one seeded trajectory of two residues (random walk inside and far outside the box, integer "
           "lattice jumps applied to either one) under one box; after every step distance_to is compared with the "
           "brute-force minimum over 9^3 images (orthorhombic) and checked for symmetry, lattice-shift invariance, "
           "<= plain distance and inverse-flag agreement.  A run is non-trivial when at least one step needed a "
           "non-zero image shift; distinct = distinct sequences of (operation, outcome, image-shift vector)."),
     components={"Residue.distance_to": REAL, "Residue/AtomGro": REAL},
     schedule_dimension=("as specified: none (a pure function of two points and a matrix).  As implemented it need not be: each run is a call "
                         "HISTORY on two persistent residues and one box object (roles alternated, arguments re-used, module state "
                         "carried inside a block), which is what exposes hidden state, argument corruption and aliasing"),
     probes=["nonzero_image", "triclinic", "far_outside", "inv_flag", "point_argument", "box_as_nested_lists", "box_as_integer_array"],
     assumptions=["separations within 1e-6 of an exact half box are skipped, as the property states",
                  "triclinic boxes: moderate skew only (off-diagonal <= 0.45 of the diagonal); only symmetry/shift invariance/inverse flag are asserted there"])


_reg("C13", engine="grofile", level="exploration",
     runs={"quick": 40000, "thorough": 1600000}, block=250,
     technique="seeded writer sessions (configuration order, formats, counts scheduled by the PRNG) on a simulated disk; file-seam image checked by the real reader and an independent fixed-width parser",
     level_text=("Sampled writer sessions: the order in which title / box / position format / atom count are configured, "
                 "writeline vs writelines vs several chunks of either, numbers as Python or numpy scalars, with-block vs close, declared vs back-filled count, 1..300 records with numbers around "
                 "the five-digit limit and coordinates on rounding boundaries.  The disk image reconstructed from the file "
                 "seam's operation log is compared with the session by GroFile itself and by an independent parser.  Titles include "
                 "blank-only, blank-padded and multi-byte ones; records may be pre-formatted strings."),
     level_note=("Trusted: the 25-line independent parser, Python float formatting.  Names are ASCII, non-blank, contain a "
                 "letter; values fit their field after rounding (as the property states).  No disk faults are injected here "
                 "(they belong to C14)."),
     rule=("one run = one writer session; non-trivial = the session closed and was read back; distinct = distinct "
           "(decimals, velocities, declared count, box kind, record count class) signatures"),
     components={"GroFile (writer and reader)": REAL, "dump/extract_lattice_gro": REAL, "disk": "tmpfs file behind the file seam (operation log + image reconstruction)"},
     schedule_dimension="order of writer configuration calls; writeline/writelines; with/close",
     probes=["custom_format", "velocities", "declared_count", "number_ge_99999", "triclinic_box", "records_written_in_chunks",
             "numpy_scalars_in_records"])

_reg("C14", engine="grofile", level="fault_enumeration",
     runs={"quick": 4800, "thorough": 100000}, block=20,
     budget={"quick": 300, "thorough": 2400},
     technique="crash-point enumeration on the file seam's operation log (stop before every write/seek/close, torn writes, byte truncation), each image opened by the real reader",
     level_text=("Per sampled writer session EVERY crash point at operation granularity is enumerated (before each record, "
                 "before close, between the seek / count back-fill / seek / box / newline steps of close), every torn prefix "
                 "of the header, count back-fill and box writes and of a sample of record writes, and every byte-level "
                 "truncation of the complete file (files <= 8 KiB; larger and shipped files: all line boundaries +-3 plus a random "
                 "sample).  Sessions themselves are sampled.  Every image the path-based reader refuses is also offered as an "
                 "already opened file; every accepted image is read through readlines(), iteration and next()."),
     level_note=("Oracle: an image that ends at or before the first byte of the complete file's box line must make GroFile(path) "
                 "raise; an accepted image must return exactly the complete file's records through readlines(), iteration and next() alike.  Any "
                 "exception type counts as rejection.  Names contain a letter that cannot occur in a float literal (a purely "
                 "numeric atom line is indistinguishable from a box line in this format).  Crash model: operation log replay "
                 "(what an unbuffered writer leaves); EIO/ENOSPC/lost pages are not injected -- no property speaks about them."),
     rule=("one run = one writer session (or one shipped file) with all its crash images; non-trivial = at least one image "
           "was judged; distinct = distinct (tail of accept/reject pattern over the close sequence, record count class, declared) signatures"),
     components={"GroFile (writer and reader)": REAL, "disk": "tmpfs file; crash images rebuilt from the file seam's operation log"},
     schedule_dimension="crash point (operation index, torn prefix length, truncation offset)",
     probes=["torn_in_close", "images", "shipped_file"])


_reg("C15", engine="topo", level="exploration",
     runs={"quick": 16000, "thorough": 600000}, block=100,
     technique="seeded generation of topology files with ground truth carried in the trace; loaded through the real parsers behind the file seam; recursion limit as an injected resource budget",
     level_text=("Sampled .itp files (1..3000 atoms; trees, forests, connected cyclic graphs, several components with cycles; gapped numbering; bonds spread over "
                 "bonds/constraints/pairs in any order, occasionally the same section twice; comments, blank and preprocessor "
                 "lines; ragged spacing; a fixed share of 1000..3000-atom chains).  read_topology, MoleculeTop, are_connected "
                 "(under the default and a reduced stack budget) and MoleculeTop.copy are compared with the ground truth the "
                 "generator recorded."),
     level_note=("Trusted: the harness' own model of what the generated lines mean (truth_from_ops) and union-find.  Preprocessor "
                 "lines start in column 0; atom numbers are unique; no section header carries a trailing comment."),
     rule=("one run = one generated topology; non-trivial = it loaded; distinct = distinct (load outcome, connectivity answer, "
           "copy outcome) x file shape signatures; chain sizes also around the interpreter's stack budget (61..999)"),
     components={"ItpFile/ItpSection/ItpLine*": REAL, "read_topology": REAL, "MoleculeTop/AtomTop": REAL, "are_connected": REAL,
                 "disk": "tmpfs file behind the file seam"},
     schedule_dimension="none for the parse itself; resource knob: interpreter recursion budget",
     probes=["chain_ge_1000", "cyclic_graph", "disconnected_graph", "multi_residue"])

_reg("C16", engine="topo", level="exploration",
     runs={"quick": 16000, "thorough": 600000}, block=100,
     technique="five-step file history (read A, write B, read B, write C, read C) through the file seam; A/B/C compared by an independent line classifier and by read_topology",
     level_text=("Sampled file histories over all 16 shipped topologies and generated files with sections in any order, repeated "
                 "section names, content lines with no / empty / multiple trailing comments, comment-only lines including "
                 "commented-out preprocessor lines, blank and preprocessor lines and header text.  What the library wrote is "
                 "taken from the file seam's operation log and compared with its input section by section (content tokens, "
                 "comment and preprocessor lines and their relative positions), then B against C for stability.  The object "
                 "written is the one read from a path, one read from an open file, or its copy() (before either write); an in-place "
                 "update (a same-length variant written over the path A was read from, read again) closes the history."),
     level_note=("Trusted: the independent classifier (30 lines).  Not compared: blank lines, whitespace inside comments, an empty "
                 "comment (';' alone).  Section headers carry no trailing comment; no section is called 'header'."),
     rule=("one run = one five-step history; non-trivial = all five steps ran; distinct = distinct sets of line kinds present x "
           "number of sections"),
     components={"ItpFile.write / ItpSection.__str__ / ItpLine.line": REAL, "read_topology": REAL,
                 "disk": "tmpfs files behind the file seam (written content taken from the seam's operation log)"},
     schedule_dimension="file history read/write/read/write/read",
     probes=["repeated_section_name", "empty_trailing_comment", "commented_preprocessor", "multiple_trailing_comments", "shipped_file", "written_from_a_copy", "read_from_open_file"])


_XMAP_NOTE = ("Trusted: the 40-line frame model (sim/models.py) and numpy.  Generic anchors make an angle >= 2e-3 rad with their frame "
              "neighbours, collinear ones are exactly or numerically (after a float rigid motion) collinear; angles in between are "
              "not generated (ill-conditioned, no implementation can meet 1e-8 there).  Nearest-anchor ties within 1e-12 nm are "
              "accepted either way.  Reference and target have the same number of residues.  Maps are built directly or through "
              "Alignment.init_exchange_map (optionally after nudging the live end molecule and initialising again with the same "
              "scale); the scale is a float, a Python int or a numpy scalar; targets may repeat one residue name on neighbouring "
              "residues and arguments may carry one residue number throughout; histories may edit the topology (a bond added, a "
              "new map built on it), re-offer rejected objects, repeat an argument with a 1e-9..1e-4 nm jitter, and use "
              "conformations in which one anchor has become exactly collinear; rigid-motion equivariance is also checked between a "
              "deformed conformation D and R D + t; frames handed out earlier are re-compared at the end of the run.")

_reg("C01", engine="xmap", level="exploration",
     runs={"quick": 3200, "thorough": 80000}, block=16,
     technique="seeded call histories on one stateful ExchangeMap; anchor-and-scale law checked whenever the history maps the construction configuration (not only first)",
     level_text=("Sampled reference/target pairs (3..40 reference atoms; trees, forests, cyclic graphs; generic, exactly collinear "
                 "along axes / diagonals / integer directions, and mixed geometries; scale in (0, 2]) and sampled histories.  "
                 "Every call on the construction configuration, at any point of the history, is compared with a + s (p - a) "
                 "using an independent nearest-anchor computation."),
     level_note="The law itself is a pure function of the input; it rides on the C04 histories because the map is stateful. " + _XMAP_NOTE,
     rule=("one run = one map + one history; non-trivial = at least one call returned; distinct = distinct sequences of "
           "(operation kind, outcome) incl. the reference geometry class"),
     components={"ExchangeMap": REAL, "calcule_base": REAL + " (wrapped by a call-through monitor)", "Molecule/Residue/AtomGro/AtomTop": REAL,
                 "MoleculeTop": REAL + " (built without a file, the way MoleculeTop.copy does)",
                 "numpy.random.rand": "random seam (seeded stream + override script) for 1-/2-atom references"},
     schedule_dimension="order of calls / rejections / mutations on one map",
     probes=["collinear_reference", "collinear_frame", "anchor_tie"])

_reg("C02", engine="xmap", level="exploration",
     runs={"quick": 3200, "thorough": 80000}, block=16,
     technique="seeded call histories with rigidly moved copies; random seam (seeded stream + corner/face override script) behind the frame completion of 1-/2-atom references; axis invariants across repeated calls",
     level_text=("Sampled pairs and histories dominated by calls on R ref + t (R uniform on SO(3) plus identity / pi / tiny / quarter "
                 "turns, |t| up to 30 nm).  Generic anchors: equality with R map(ref) + t to 1e-8; collinear anchors and 2-atom "
                 "references: distance to anchor, axial coordinate and distance from the axis; 1-atom references: distance.  "
                 "For 1-/2-atom references every call draws a new completion from the random seam, so the invariants are "
                 "checked across different random streams and under injected extreme draws."),
     level_note=_XMAP_NOTE,
     rule=("one run = one map + one history; non-trivial = at least one call returned; distinct = distinct sequences of "
           "(operation kind, outcome) incl. the reference geometry class"),
     components={"ExchangeMap": REAL, "calcule_base": REAL + " (wrapped by a call-through monitor)", "Molecule/Residue/AtomGro/AtomTop": REAL,
                 "MoleculeTop": REAL + " (built without a file, the way MoleculeTop.copy does)",
                 "numpy.random.rand": "random seam (seeded stream + override script) for 1-/2-atom references"},
     schedule_dimension="order of calls on one map; random completion stream",
     probes=["collinear_reference", "collinear_frame", "coincident_middle_point"])

_reg("C03", engine="xmap", level="exploration",
     runs={"quick": 3200, "thorough": 80000}, block=16,
     technique="seeded call histories with deformed conformations and single-atom displacement probes against a locality oracle",
     level_text=("Sampled pairs and histories dominated by calls on deformed conformations (independent displacement of every "
                 "atom up to 0.3 nm) and on conformations that differ from an earlier one by a single displaced atom.  Checked: "
                 "distance to the new anchor position = s x construction distance (1e-9), intra-anchor distances x s (1e-9), and "
                 "mapped atoms whose anchor and frame neighbours were not displaced are unchanged (1e-12)."),
     level_note="Nothing is asserted for atoms whose anchor or frame neighbours moved. " + _XMAP_NOTE,
     rule=("one run = one map + one history; non-trivial = at least one call returned; distinct = distinct sequences of "
           "(operation kind, outcome) incl. the reference geometry class"),
     components={"ExchangeMap": REAL, "calcule_base": REAL + " (wrapped by a call-through monitor)", "Molecule/Residue/AtomGro/AtomTop": REAL,
                 "MoleculeTop": REAL + " (built without a file, the way MoleculeTop.copy does)",
                 "numpy.random.rand": "random seam (seeded stream + override script) for 1-/2-atom references"},
     schedule_dimension="order of calls on one map",
     probes=["locality_checked", "collinear_reference"])

_reg("C04", engine="xmap", level="exploration",
     runs={"quick": 3200, "thorough": 80000}, block=16,
     budget={"quick": 300, "thorough": 2400},
     technique="seeded operation histories (calls, repeats, rejected arguments, mutation of construction molecules / results / arguments) on one map, checked after every operation against a freshly built map, a reference model and bitwise snapshots",
     level_text=("Sampled histories of 10..32 operations on one map: calls on construction / rigid / deformed copies and on "
                 "separately built instances of the species, repeats of earlier calls, rejected arguments (other name, other "
                 "atom name, extra atom, None, Residue, array, str, MoleculeTop) and fault-like mutations of the construction "
                 "molecules, of returned molecules and of arguments after the call.  After every call: equality with a freshly "
                 "built map (1e-12), with the model, with earlier results for the same argument; bitwise snapshots of argument, "
                 "construction molecules and all previously returned molecules; names / residue names / order of the target and "
                 "residue numbers of the argument; TypeError for rejections and a usable map afterwards.  `equivalences` is read right "
                 "after construction or only after the first call (reading it is itself an observation that could force a lazily "
                 "built map), and histories may begin with rejections and mutations of the construction molecules."),
     level_note=("Mutations change coordinates only (names of the construction molecules are not touched). " + _XMAP_NOTE),
     rule=("one run = one map + one history; non-trivial = at least one call returned; distinct = distinct sequences of "
           "(operation kind, outcome)"),
     components={"ExchangeMap": REAL, "calcule_base": REAL + " (wrapped by a call-through monitor)", "Molecule/Residue/AtomGro/AtomTop": REAL,
                 "MoleculeTop": REAL + " (built without a file, the way MoleculeTop.copy does)",
                 "numpy.random.rand": "random seam (seeded stream + override script) for 1-/2-atom references"},
     schedule_dimension="order of calls / repeats / rejections / mutations on one map",
     probes=["collinear_reference"])


_MC_NOTE = ("Trusted: the monitors' re-statement of the definitions (sim/models.py fast_chi2, engines/mc.py), numpy.  The mobile "
              "molecule is a connected tree, the fixed one has a bond and a non-hydrogen atom, single-atom moves only with >= 2 "
              "mobile atoms (as the properties state).  Energies are > 0 (no exactly superposed configurations are generated). "
              "Injected draws are legal values of their distributions; exact zero displacements are never injected.")
_MC_RULE = ("one run = one alignment (or one direct optimiser call) = one complete Monte-Carlo trajectory under one seeded stream "
            "and one override script, executed twice; non-trivial = the run completed; distinct = distinct sequences of "
            "(move type, accepted, new minimum) triples")
_MC_FAULTS = ["accept_draw_extreme", "move_type_pinned", "atom_index_pinned", "translation_scaled", "rotation_angle_extreme",
              "rotation_axis_extreme", "atom_displacement_scaled"]

_reg("C06", engine="mc", level="exploration",
     runs={"quick": 4800, "thorough": 160000}, block=16,
     cross_interpreter={"quick": 8, "thorough": 128},
     technique="deterministic simulation of the Monte-Carlo alignment under a seeded + adversarially overridden random stream; end-state oracles; every run executed twice (bit-identical) and a sample re-executed in a fresh interpreter under another hash seed",
     level_text=("Sampled molecule pairs (1..40 atoms, either one larger, ties, one-atom molecules), restraint lists, deformation-type "
                 "subsets, hydrogen settings, knobs (STEPS_FACTOR, SIGMA_SCALE) and random streams, including injected regimes an "
                 "unseeded run practically never visits (accept-everything bursts, thousand-fold displacements, pi rotations, one "
                 "hub atom moved repeatedly).  Checked on the end state: the larger molecule only translated (untouched when it is "
                 "the end molecule), bond lengths of the mobile tree to 1e-9, all pairwise distances when single-atom moves are off, "
                 "names/order, finiteness, caller's molecules bit-identical, repeatability.  About 6 % of the runs use a "
                 "DEGENERATE mobile molecule (a hub atom whose bonded neighbours are exactly collinear, dyadic coordinates): the "
                 "random single-atom displacement of the hub is then 0/0, the proposal non-finite, and it must never become the "
                 "held configuration; the monitors of C07-C09 stand down for those proposals, the end-state oracles stay.  A fifth of "
                 "the runs re-assigns another conformation of the mobile molecule on the SAME Alignment and aligns again (oracles on "
                 "the second alignment); some runs sit 3000 / 7000 nm from the origin; the axis site of the override script also "
                 "injects directions of almost unit length."),
     level_note=_MC_NOTE,
     rule=_MC_RULE,
     components={"Alignment.align_molecules": REAL, "_backend._minimize_molecules (python engine)": REAL,
                 "Chi2Calculator / accept_metropolis / move_mol_atom / find_atom_random_displ / rotation_matrix": REAL + " (wrapped by call-through monitors)",
                 "numpy.random.{choice,normal,uniform,rand,randint}": "random seam: numpy's global RandomState seeded per run + override script",
                 "cython backend": "not installed; the pure-python engine is what runs",
                 "Molecule/MoleculeTop": REAL + " (MoleculeTop built without a file)"},
     schedule_dimension="the random stream (seed + override script) that decides every step of the search; knob values",
     probes=["accepted_worse_proposal", "rigid_only_run", "new_minimum", "rejected_proposal", "degenerate_mobile_geometry",
             "non_finite_proposal_evaluated", "molecule_reassigned_before_alignment"])

_reg("C07", level="exploration",
     parts=[{"engine": "mc", "runs": {"quick": 3200, "thorough": 120000}, "block": 16},
            {"engine": "directed", "runs": {"quick": 1000, "thorough": 40000}, "block": 10}],
     technique="in-situ monitor on every single-atom move and random displacement the Monte-Carlo loop makes under the random seam; the same monitor fed with all labelled trees up to 6 (thorough: 7) atoms and random trees / cyclic graphs",
     level_text=("(1) Every move_mol_atom / find_atom_random_displ call made by the simulated Monte-Carlo trajectories is checked: input "
                 "unmodified, output finite, the chosen atom displaced by exactly the drawn vector, every bond of the tree at its "
                 "tabulated length (1e-9 relative), displacement perpendicular to the bond / neighbour line / neighbour plane.  "
                 "(2) Directed: the first runs enumerate EVERY labelled tree on 2..6 atoms (thorough: ..7, 16 807 trees) by Pruefer "
                 "index with every atom moved, generic coordinates, displacements 0.01..10 nm and bond tables that agree with the "
                 "geometry or are off by +-30 %; further runs use random trees and cyclic graphs up to 60 atoms with explicit and "
                 "random (seam-drawn) displacements; for cyclic graphs the exactly restored bonds must reach every atom from the "
                 "moved one (traversal-agnostic).  The same tree and moved atom are also moved again with ANOTHER bond table (the "
                 "species in another conformation) inside one run, positions / displacement are also given as plain lists, a "
                 "displacement may be requested for a randomly chosen atom, refused calls (broken bond tables) are made between "
                 "valid ones, and arrays returned earlier are re-compared at the end."),
     level_note=_MC_NOTE + "  The directed half is a pure function of its input: the harness contributes enumeration / seeded generation and replay only.",
     rule=_MC_RULE + "; directed runs: one batch of 12 enumerated trees (all moved atoms) or one random graph with 8 moves",
     components={"Alignment.align_molecules": REAL, "_backend._minimize_molecules (python engine)": REAL,
                 "Chi2Calculator / accept_metropolis / move_mol_atom / find_atom_random_displ / rotation_matrix": REAL + " (wrapped by call-through monitors)",
                 "numpy.random.{choice,normal,uniform,rand,randint}": "random seam: numpy's global RandomState seeded per run + override script",
                 "cython backend": "not installed; the pure-python engine is what runs",
                 "Molecule/MoleculeTop": REAL + " (MoleculeTop built without a file)"},
     schedule_dimension="the random stream feeding atom choice and displacement (mc part); none for the directed part",
     probes=["displacement_three_neighbours", "enumerated_tree_batch", "cyclic_move", "bond_table_disagrees_with_geometry"])

_reg("C08", level="exploration",
     parts=[{"engine": "mc", "runs": {"quick": 3200, "thorough": 120000}, "block": 16},
            {"engine": "directed", "runs": {"quick": 1200, "thorough": 60000}, "block": 10}],
     technique="in-situ monitor comparing every chi2 evaluation made along simulated Monte-Carlo trajectories with a naive re-statement of the definition; directed: calculators reused on unrelated configurations, rigid-motion and relabelling invariance",
     level_text=("Every evaluation of the overlap measure made by the loop -- on configurations reached by the search, far from the "
                 "one the calculator was built with, for empty / partial / duplicated / all-fixed-atoms restraint lists -- is "
                 "compared (1e-9 relative) with an independent evaluation written from the statement; non-negativity; the "
                 "argument must not be modified.  Directed: calculators for 1..40 x 1..25 atoms and empty / partial / duplicated-"
                 "fixed-atom / duplicated-pair / every-fixed-atom restraint lists are built once and evaluated on 10 unrelated "
                 "configurations each (incl. mobile atoms exactly on fixed atoms), against a pure-python double loop, plus invariance "
                 "under a common rigid motion and under a consistent relabelling of atoms and restraints.  The fixed array is also "
                 "handed over with integer or float32 dtype (exactly representable values), ONE mobile buffer is modified in place "
                 "between evaluations in a third of the batches, and some batches place both sets 1e2.5..1e4 from the origin."),
     level_note=_MC_NOTE + "  Evaluations where two mobile atoms are equidistant (1e-9) from a fixed atom are skipped (penalty exponent undefined).",
     rule=_MC_RULE,
     components={"Alignment.align_molecules": REAL, "_backend._minimize_molecules (python engine)": REAL,
                 "Chi2Calculator / accept_metropolis / move_mol_atom / find_atom_random_displ / rotation_matrix": REAL + " (wrapped by call-through monitors)",
                 "numpy.random.{choice,normal,uniform,rand,randint}": "random seam: numpy's global RandomState seeded per run + override script",
                 "cython backend": "not installed; the pure-python engine is what runs",
                 "Molecule/MoleculeTop": REAL + " (MoleculeTop built without a file)"},
     schedule_dimension="the random stream that drives the calculator to new configurations (mc part); none for the directed part",
     probes=["chi2_off_construction_config", "chi2_penalty_k>0"])

_reg("C09", engine="mc", level="exploration",
     runs={"quick": 4800, "thorough": 160000}, block=16,
     budget={"quick": 300, "thorough": 2400},
     technique="deterministic simulation of the Monte-Carlo loop: every draw comes from the random seam, every component call is observed, and a reference model of the loop's bookkeeping is advanced event by event (refinement check per step)",
     level_text=("Per iteration, through the seams only: the move-type draw, the proposal handed to the measure, its value, the two "
                 "energies given to the acceptance test, the uniform number it consumed and its answer, the rotation matrix / the "
                 "single-atom move.  A 40-line model (held configuration, held energy, lowest energy, counter) "
                 "is advanced from these events and checks: judged against the held energy (bitwise), Metropolis rule for the "
                 "recorded u, proposal = translation / centroid rotation / single-atom move of the HELD configuration and of an "
                 "enabled type (the types the CALLER enabled must be the ones the search is started with, and it starts from the "
                 "mobile molecule's configuration), rejection leaves state unchanged, no proposal is evaluated once the counter has "
                 "reached the budget (the monitor raises inside the seam), the returned array is the held "
                 "one bitwise; and the two energies compared at every step equal the reference definition of the measure "
                 "(C08) for the held configuration and for the proposal as they are then (a calculator that drifts is a C09 "
                 "violation too).  Direct drives of the optimiser entry point also use a mobile set in two bonded pieces with every "
                 "restraint on one piece (moves in the other piece tie the measure exactly: 'equal is always accepted'), and "
                 "molecules expressed in other length units (coordinates x 1e-6, 1e-4, 1e3)."),
     level_note=_MC_NOTE + "  If the loop stops using the module-level names the seams watch (no iteration recognised although proposals were evaluated), the run is counted as unobservable (probe) instead of judged.  What the search prints is not judged (counted in a probe).",
     rule=_MC_RULE,
     components={"Alignment.align_molecules": REAL, "_backend._minimize_molecules (python engine)": REAL,
                 "Chi2Calculator / accept_metropolis / move_mol_atom / find_atom_random_displ / rotation_matrix": REAL + " (wrapped by call-through monitors)",
                 "numpy.random.{choice,normal,uniform,rand,randint}": "random seam: numpy's global RandomState seeded per run + override script",
                 "cython backend": "not installed; the pure-python engine is what runs",
                 "Molecule/MoleculeTop": REAL + " (MoleculeTop built without a file)"},
     schedule_dimension="the random stream (seed + override script): move types, magnitudes, acceptance draws",
     probes=["accepted_worse_proposal", "accepted_without_new_minimum", "new_minimum", "rejected_proposal",
             "equal_measure_other_configuration", "two_piece_mobile_direct", "other_length_units"])

_reg("C17", level="exploration",
     parts=[{"engine": "xmap", "runs": {"quick": 1600, "thorough": 30000}, "block": 16},
            {"engine": "mc", "runs": {"quick": 800, "thorough": 15000}, "block": 8},
            {"engine": "directed", "runs": {"quick": 1600, "thorough": 40000}, "block": 40}],
     technique="in-situ monitors on every rotation matrix the simulated Monte-Carlo loop uses (axes/angles from the random seam incl. injected extremes) and on every local frame the exchange-map histories build; directed closed-form relations",
     level_text=("Every matrix rotation_matrix returns during mc runs (orthogonal, det +1, axis fixed, trace 1 + 2cos(theta), to "
                 "1e-12) and every frame calcule_base returns during xmap runs (right-handed orthonormal to 1e-12, first vector "
                 "along p2 - p0, origin p0, inputs unmodified: for EVERY triple with p0 != p2; third vector normal to the plane within "
                 "1e-12 + 64 eps / sin(angle), which binds above sin ~ 1e-7), for generic, exactly collinear (axes, diagonals, integer "
                 "directions), numerically collinear, NEARLY collinear (angle log-uniform 1e-13..1e-2 rad), coincident-middle, "
                 "coincident-last, far-from-origin and axis-aligned non-collinear (lattice, planar) triples.  "
                 "Directed: axes of norm 1e-6..1e6 and angles in [-20, 20] with R(-t) = R(t)^T, R(a)R(b) = R(a+b) and independence of "
                 "the axis length and of its form (tuple, int array, float32); point triples at scales 2^-10..2^10 of every kind "
                 "above, given as lists or arrays.  A third of the batches reuses ONE buffer overwritten in place between calls."),
     level_note=("The directed part checks pure functions: seeded generation against closed-form oracles, nothing more.  No clause "
                 "depends on where an implementation draws its own line between collinear and generic; tolerance 1e-12 (4e-12 for the "
                 "product relation).  Axis norms stay inside 1e-6..1e6; float32 angles are not used (numpy then computes in float32)."),
     rule="runs of the xmap and mc engines plus directed batches of 40 matrices / 40 frames; non-trivial = the run completed; distinct = distinct behaviour signatures",
     components={"rotation_matrix": REAL, "calcule_base": REAL, "callers": "ExchangeMap and the MC loop, real code"},
     schedule_dimension="call histories on a map; the random stream of the MC loop",
     probes=["collinear_frame", "coincident_middle_point", "axis_buffer_reused_in_place", "points_buffer_reused_in_place",
             "axis_argument_forms"])


_reg("C12", engine="grosys", level="exploration",
     runs={"quick": 16000, "thorough": 400000}, block=100,
     budget={"quick": 300, "thorough": 2400},
     technique="seeded scheduler over cooperative consumers (live generators + random access) of one SystemGro that share a single file cursor; every returned residue checked against an independent parse",
     level_text=("Sampled files (1..400 residues of 1..12 atoms; repeated, alternating and random residue kinds; equal names with "
                 "different sizes; boundaries where only the number or only the name changes; equal consecutive (number, name) "
                 "records that merge; with/without velocities; rectangular/triclinic box) and sampled schedules of up to 200 steps "
                 "over 1..4 live iterators on the SAME SystemGro interleaved with indexed (any sign, out of range), sliced (all sign "
                 "combinations, steps +-1..3) and whole-file accesses.  Every residue handed out must equal the file's records "
                 "whatever was read before.  Files may have DOS line ends; the path may have held (and been loaded as) another "
                 "system of the same atom count before; `for residue in SystemGro(path)` on a temporary view with a garbage "
                 "collection in the middle."),
     level_note=("Trusted: the independent fixed-width parser.  Residue names start with a letter (a leading digit makes the "
                 "library's residue identifier 'number+name' ambiguous; the property is not tested there)."),
     rule=("one run = one file + one access schedule; non-trivial = the file loaded; distinct = distinct sequences of (operation, outcome)"),
     components={"SystemGro": REAL, "GroFile reader (seek_atom / next)": REAL, "file": "real tmpfs file; the shared cursor is the library's own"},
     schedule_dimension="which consumer of the shared file handle steps next",
     probes=["two_live_iterators_mid_file", "negative_step_slice", "equal_name_different_size_adjacent", "dos_line_ends",
             "path_held_another_file_before", "iterated_a_temporary_view"])


_reg("C18", engine="alias", level="exploration",
     runs={"quick": 9600, "thorough": 300000}, block=50,
     technique="seeded operation histories over an aliasing object graph, refinement-checked after every operation against a storage-cell model (copies: fresh cells, views: shared cells)",
     level_text=("Sampled histories of 6..40 operations {copy, deep_copy, atom/residue copies, live views by index / negative index / "
                 "iteration, molecules handed out by a System built from real files (index, iteration, slice, same index twice), "
                 "molecules stored by an Alignment, move, move_to, rotate, set positions / velocities (incl. None) / atom numbers / "
                 "residue numbers, names and residue names, assignment through a view incl. in-place +=} over single- and "
                 "multi-residue molecules.  After EVERY operation every tracked object's coordinates, velocities, numbers and names "
                 "are compared with the model: bitwise for everything the operation did not address, 1e-9 for what it did; plus "
                 "centre displacement and distance preservation for rigid operations.  How often the harness LOOKS is itself scheduled "
                 "(after every 1 / 2 / 4 operations or only at the end): constant reading would keep any read-refreshed cache of "
                 "the library warm.  Re-centring also along one or two axes only (target sharing components exactly with the "
                 "current centre), axis-parallel moves, list / tuple arguments, per-residue name lists, one residue of 260-330 atoms "
                 "in one run of fifty."),
     level_note=("Trusted: the cell model (engines/alias.py).  Names / residue names are only changed on molecules whose topology the "
                 "model says is unshared (deep copies, fresh molecules): shallow copies share their topology by documented design and "
                 "the property claims name isolation for deep copies only.  Arrays given to setters are fresh (no caller-side aliasing)."),
     rule="one run = one history; non-trivial = the history ran to its end; distinct = distinct sequences of (operation, target kind)",
     components={"Atom/AtomGro/Residue/Molecule/MoleculeTop": REAL, "System/SystemGro + parsers": REAL + " (real files on tmpfs)",
                 "Alignment setters": REAL},
     schedule_dimension="order of copy / view / mutate operations over the object graph",
     probes=["rigid_op_on_multi_residue", "assignment_through_view", "system_handout", "alignment_stored", "names_changed_on_unshared_topology", "lazy_verification",
             "move_to_sharing_components_with_centre"])


_reg("C11", engine="system", level="exploration",
     runs={"quick": 9600, "thorough": 300000}, block=50,
     technique="seeded load-order schedules with interleaved observers and injected failing loads on one System; all observers cross-checked against the instance list the generator recorded",
     level_text=("Sampled worlds (1..4 species of 1..3 residues with repeated residues inside a species, equal residue names with "
                 "different sizes, an unloaded solvent) and files of 0..6 (thorough: up to 40) molecules in any order with solvent "
                 "interspersed.  The schedule is the order of topology loads (constructor arguments, add_ftop by path / open file, "
                 "add_molecule_top), any subset, with len / composition / every index incl. negative / slices / iteration executed "
                 "between loads, and failing loads (species absent from the file, unrelated shipped topology, same signature with "
                 "other atom names, a topology whose residue kinds all occur in the file but never as that run -- reversed, "
                 "extended, doubled) injected anywhere: they must raise and leave every observer unchanged; a duplicate load may "
                 "raise or be accepted, but must change nothing.  The file may carry velocity columns.  Whether "
                 "the harness looks right after a load is scheduled; live System iterators are stepped between other accesses; "
                 "neighbouring residues of different kinds may share a residue number; a few systems have 1000-2000 residues or "
                 "start with a solvent prefix of 2^k +- 2 residues."),
     level_note=("Residue kinds have pairwise distinct (name, atom count) signatures and no kind belongs to two species (how "
                 "'distinct residue signatures' is read).  Which exception an out-of-range index raises is not checked.  Trusted: "
                 "the generator's record of what it wrote."),
     rule="one run = one file + one load/observe schedule; non-trivial = schedule ran to the end; distinct = distinct (operation, outcome) sequences",
     components={"System / SystemGro": REAL, "MoleculeTop / read_topology / ItpFile": REAL, "Molecule": REAL, "files": "real files on tmpfs"},
     schedule_dimension="order of topology loads, position of observers and of failing loads",
     probes=["second_or_later_load", "load_not_observed_at_once", "live_iterator_stepped_between_accesses"])


_reg("C10", engine="routing", level="exploration",
     runs={"quick": 9600, "thorough": 240000}, block=50,
     technique="interposed recording stubs at the component boundaries (optimiser entry point; per-species alignment) under seeded generation of molecule pairs, restraint lists and per-species option dictionaries with injected malformed options; enumeration of all 40x40 residue-length pairs for the splitter",
     level_text=("Three sampled workloads.  (1) Alignment level: what the optimiser receives is recorded by a stub and each restraint "
                 "is checked BY COORDINATES to designate the atoms the user meant, for either molecule larger, ties, random hydrogens, "
                 "filter on/off; dropped exactly when the fixed-side atom is a filtered hydrogen, order kept.  (2) Guessers: run 0 "
                 "enumerates all 1600 residue-length pairs (with and without offsets); random multi-residue molecules for the protein "
                 "guesser incl. unequal residue counts (must be refused).  (3) Manager level on generated multi-species systems loaded "
                 "from real files: per-species restraints / deformation types / hydrogen flags must reach exactly that species' "
                 "Alignment object; unknown names, species without an end molecule and malformed values must raise before the first "
                 "alignment call.  Restrictions handed over as already parsed (parse_restrictions=False) also come in another "
                 "key order than the manager's and for a subset of the species; unknown names include fragments of known ones "
                 "(prefix, suffix, empty, separator); a quarter of the alignment-level runs re-uses an Alignment object that has "
                 "already aligned another pair (emptied through None)."),
     level_note=("Stubs replace minimize_molecules (level 1) and Alignment.align_molecules (level 3) because the property is about "
                 "what reaches them; everything before them is real code.  A one-atom end molecule is not generated at level 1 "
                 "(the alignment returns before the optimiser).  The guesser part is plain enumeration of a pure function."),
     rule="one run = one alignment call / one guesser call (run 0: all 1600 pairs) / one manager call; non-trivial = it completed; distinct = distinct (mode, role swap, filter, kept/given, outcome) signatures",
     components={"Alignment.align_molecules / remove_hydrogens / guessers": REAL, "Manager option parsing": REAL,
                 "minimize_molecules": "recording STUB (level 1)", "Alignment.align_molecules": "recording STUB (level 3)",
                 "System / parsers": REAL + " (real files on tmpfs)"},
     schedule_dimension="none (configuration space: roles, filters, option dictionaries, injected malformed options)",
     probes=["role_swap_with_restraints", "restraint_dropped_with_hydrogen", "reindexing_with_restraints", "all_1600_length_pairs",
             "several_species_routed", "pre_parsed_restrictions", "pre_parsed_other_key_order", "pre_parsed_subset"])


_reg("C05", engine="pipeline", level="exploration",
     runs={"quick": 6400, "thorough": 200000}, block=20,
     technique="seeded Manager life-cycle histories on a simulated disk: the file seam's operation log answers 'was the output opened for writing' and supplies the written image; output re-parsed independently and compared molecule by molecule with the species' map applied to the input molecule",
     level_text=("Sampled worlds (2..5 species with 1-, 2- and >=3-atom references, single- and two-residue species, an unloaded "
                 "solvent, 2..60 interleaved molecules, rectangular / triclinic box, assorted titles) and sampled histories: end "
                 "molecules attached for any subset in any order (from files or as objects), maps calculated with any scale, "
                 "optional short alignment, extrapolation requested any number of times incl. too early (nothing attached; an end "
                 "molecule attached after the last map calculation) and onto existing outputs.  Checked: refusal leaves no "
                 "open-for-write event and an unchanged disk; success gives count = sum of target sizes, input order, atom numbers "
                 "1.., title, box (5e-6), input residue numbers, coordinates = species' map(input molecule) to the format precision "
                 "(C02's invariants for 1-/2-atom references), byte-identical repetition.  After every calculate_exchange_maps(s) the map of each attached species (reference >= 3 atoms) is applied "
                 "to the alignment's own start molecule and must give anchor + s (end atom - anchor): the requested scale "
                 "really is the scale of the map.  Systems are also populated one MoleculeTop at a time in shuffled order; the live "
                 "end molecule may be nudged and the maps rebuilt with the same scale; residue numbers may be shared by neighbours "
                 "of different species and may end exactly at 99999; titles may end in blanks."),
     level_note=("Trusted: the 15-line output parser; the expected coordinates come from calling the species' own exchange map "
                 "(C04 decides that this call is history-independent; the scale-law clause ties that map to the requested scale).  End molecules carry no velocities.  Systems stay below "
                 "99 999 atoms."),
     rule="one run = one world + one life-cycle history; non-trivial = the history ran to the end; distinct = distinct (operation, outcome) sequences",
     components={"Manager / Alignment / ExchangeMap": REAL, "System / SystemGro / Molecule": REAL, "GroFile writer + parsers": REAL,
                 "MC alignment": REAL + " (only in histories that contain an align step; STEPS_FACTOR 1..3)",
                 "disk": "tmpfs directory behind the file seam"},
     schedule_dimension="order of life-cycle calls; position of premature extrapolations",
     probes=["successful_extrapolation", "small_reference_species", "unmapped_species_skipped", "repeated_extrapolation",
             "overwrote_existing_output", "scale_law_checked", "end_attached_through_attribute"])


_reg("C20", engine="cli", level="exploration",
     runs={"quick": 800, "thorough": 20000}, block=4,
     cross_interpreter={"quick": 8, "thorough": 48},
     budget={"quick": 200, "thorough": 2400},
     technique="deterministic simulation of the CLI: random seam (same seed, digest comparison) for CLI-vs-library equivalence; set seam (scheduler-chosen iteration order of the discovery sets) and scheduler-chosen candidate order for discovery; real subprocesses under different hash seeds as a cross-check",
     level_text=("Sampled worlds (1..4 species incl. 1-/2-atom references, solvent, distractor files) plus the shipped BMIM/BF4 box.  "
                 "Equivalence runs: main() with explicit --mol triples in any order, --scale given or defaulted, -o given or the "
                 "default mapped_<input> beside the input (absolute paths, paths relative to the working directory, input in a "
                 "sub-directory; the working directory of the tool is the run's scratch directory), against Manager.from_files / add_end_molecule / align_molecules / "
                 "calculate_exchange_maps(scale) / extrapolate_system under the same seed: byte-identical files and equal "
                 "random-stream digests.  Discovery runs: the candidate list in scheduler-chosen order, the two classification sets "
                 "iterating in scheduler-chosen order (every order reachable), species complete / given explicitly (also listed) / "
                 "missing their end topology, end coordinates or both, excluded species, distractors (other extensions, files of a "
                 "species absent from the system, the system file itself, a start-resolution coordinate file): sort_molecules must "
                 "return exactly the complete species' three files for every order, never re-add explicit species, and main must "
                 "map exactly the complete, non-excluded ones, and its output must equal, byte for byte, the library workflow fed "
                 "with the explicit triples followed by the discovered ones in the order the tool reports.  Candidate lists also "
                 "contain a near-miss topology (same residue signature, other atom names), file names with several dots, "
                 "explicit files listed again under another spelling, and topologies in six legal header layouts.  The first runs execute the unmodified CLI in real subprocesses "
                 "under different PYTHONHASHSEED values with shuffled --auto lists."),
     level_note=("No duplicate topologies of one molecule name and no malformed files are generated (the statement's 'its files' is "
                 "then undefined).  STEPS_FACTOR is lowered to 1..2 (class attribute) in both workflows alike.  Outputs of two "
                 "processes are compared only when they added the species in the same order (the order decides which species "
                 "consumes the random stream first)."),
     rule="one run = one world + one CLI scenario; non-trivial = scenario completed; distinct = distinct (mode, outcome) signatures",
     components={"_cli.main / auto_map / sort_molecules": REAL, "_cli.classify_files": REAL + " (results re-wrapped in sets with scheduler-chosen iteration order)",
                 "Manager / System / Alignment / ExchangeMap / parsers / MC engine": REAL,
                 "process mode": "real `python -c '...; main()'` subprocesses of the working tree under chosen PYTHONHASHSEED"},
     schedule_dimension="candidate-list order, set iteration order, hash seed, order of --mol triples",
     probes=["incomplete_species_among_candidates", "excluded_species", "explicit_plus_auto", "default_output_name", "real_process_runs",
             "same_species_order_across_hash_seeds", "auto_run_compared_with_library", "relative_paths_cwd", "relative_paths_subdir"])


# --------------------------------------------------------------------------
# session-2 audit round (DESIGN A.12): what was added to each check after the read-only audits
# --------------------------------------------------------------------------
_ADDENDA = {
    "C01": "Audit round: the law is also judged on calls with the very object the map was built from (while it still sits on the "
           "construction configuration), references with one anchor NEARLY collinear (angle 1e-12..2e-3 rad) and axis-aligned "
           "non-collinear references (lattice points, often planar); tolerance is the statement's absolute 1e-9 nm.",
    "C02": "Audit round: for references of >= 3 atoms the object the map was built from, moved and rotated in place by the "
           "history, is judged too (the rigid motion is recovered from the coordinates); two-atom references must be mapped as ONE "
           "rigid image (all mutual distances); the statement's 1e-8 nm is absolute up to 100 nm from the origin.  If the map's "
           "anchor table is unusable the statement's own nearest-anchor rule replaces it instead of silencing the oracles.",
    "C03": "Audit round: references of 1 and 2 atoms are judged (distance to the first atom and all mutual distances scale by s), "
           "conformations with a NEARLY collinear anchor are generated (the frame is orthonormal there too), locality is probed "
           "from such bases as well.",
    "C04": "Audit round: the same argument OBJECT is offered again later in the history (possibly moved in between), every earlier "
           "argument is compared with its snapshot at the end, rejected kinds include the same atoms in another order and one atom "
           "fewer.",
    "C05": "Audit round: end coordinate files with velocity columns on some species only, boxes with some off-diagonal elements "
           "zero (monoclinic / hexagonal shapes), nothing may follow the box line, small-reference molecules must be one rigid image "
           "of the map's result, the species' maps are judged against the anchor-and-scale law again AFTER each extrapolation, and a "
           "species detached and attached again may either keep or lose its map (both outcomes accepted).",
    "C06": "Audit round: what the Alignment holds before aligning is compared with what the caller supplied; molecules reach it by "
           "constructor, by assignment in either order, or after being cleared with None; options as lists or left at their "
           "defaults; connected mobile molecules with rings; absolute 1e-9 nm tolerances up to 1000 nm from the origin.",
    "C07": "Audit round: the bond table is snapshotted before every call (a call that edits it is a violation, and the oracle uses "
           "the snapshot), neighbour lists come in arbitrary order in a third of the tables, and the form 'atom named, displacement "
           "drawn' is exercised on every enumerated tree.",
    "C08": "Audit round: mobile configurations as Fortran-ordered and as strided non-contiguous views, the arrays a calculator was "
           "built from must stay unchanged, and evaluations with a nearest-atom tie are still required to be finite and "
           "non-negative.",
    "C10": "Audit round: multi-residue pairs with restrictions=None run through align_molecules itself (guessing on, off, flag left "
           "at its default; either molecule larger; hydrogen filter on/off): what reaches the optimiser must be the guesser's pairs "
           "(themselves judged against the statement's clauses) after role swap and filtering.  The element rule (first run of "
           "letters of the name) is evaluated by the harness; hydrogens named number-first ('1H2').  Malformed values include the "
           "first index that does not exist; each recorded alignment must hold its own species' molecules.  An option for a known "
           "species without end molecule may be rejected or ignored.",
    "C12": "Audit round: coordinate layouts other than %8.3f (decimals 1..6, width decimals+5), atom names filling five columns, "
           "each residue's own length / name / number, and residues handed out earlier are compared with the file again at the end.",
    "C13": "Audit round: the atom count may be declared after some records were written; names from the whole non-blank alphabet "
           "(lower case, dots, no letter at all); the file must end with its box line and one newline; boxes as integer arrays, "
           "from nested lists, with three-digit edges; the layout of position and velocity columns is read off the file; random "
           "access is checked at five records and for the record that follows.",
    "C14": "Audit round: an image must be refused when its atom-count line is blank or it ends at or before the first byte of the "
           "box line -- a rule that does not depend on the order in which the writer performs the steps of close; sessions that "
           "declare the count late are enumerated too.",
    "C15": "Audit round: copies are compared with the file field by field (also a copy of the copy and a copy taken after a bond "
           "was added to the original), connectivity is asked of the copy and again after two components were connected, files "
           "without any bond section, thousands of atoms with exactly one bond missing.",
    "C16": "Audit round: the OBJECTS the re-reads yield (section order, the content lines a section lists, every line's content and "
           "comment) are compared with the original text by the independent classifier; a section name may occur three times; "
           "indented comment-only lines.",
    "C18": "Audit round: the residue numbers held by the topology are tracked (plain copies share them, deep copies own theirs); "
           "a molecule's resids / resnames and a residue's resid / resname must agree with their atoms.",
    "C19": "Audit round: lattice shifts are also applied by the harness to a bare point (not through the library's move), and the "
           "distance to a residue must equal the distance to its geometric centre given as a point.",
    "C20": "Audit round: the species the tool hands to the mapping step are recorded at the auto_map call (its printed report is "
           "only a fallback); real-process outputs are compared byte for byte with the library workflow; --auto over the whole "
           "shipped data directory; --auto with the default output name and with a relative -o; no stray mapped_* files; a world "
           "both workflows refuse is not a difference; consumed random streams are no longer compared.",
}
for _pid, _txt in _ADDENDA.items():
    PROPERTIES[_pid]["level_text"] = PROPERTIES[_pid]["level_text"] + "  " + _txt


# --------------------------------------------------------------------------
# rounds 9-13 of seeded changes (DESIGN A.8): scenario families added to each check
# --------------------------------------------------------------------------
_ADDENDA2 = {
    "C01": "Rounds 9-13: references of 258..1030 atoms, pairs 1000..9000 nm from the origin, scale factor exactly 0 (C02-C04), atoms exactly at 0.0 / -0.0.",
    "C02": "Rounds 9-13: scale factor 0, reference atoms exactly on the origin (at construction and after the motion), translations up to 9000 nm with 1e-8 nm absolute for well-conditioned anchors, the rigid-motion clause also against the molecule returned earlier and still held, a second map (new or a rescaled shallow copy) on the same molecule objects.",
    "C03": "Rounds 9-13: sibling maps and rescaled shallow copies of the map, far-from-origin pairs, scale factor 0.",
    "C04": "Rounds 9-13: residue numbers above 99999, in-place arithmetic on position arrays of arguments / results / construction molecules, sibling maps, references of several hundred atoms.",
    "C05": "Rounds 9-13: end molecules of another moleculetype name (attribute route), box edges of three digits with five decimals, the input renamed away and replaced under its name after loading, the output named by a bare file name.",
    "C06": "Rounds 9-13: write_comparative_gro between alignment and checks, re-assignment of the mobile molecule with another acyclic bond graph, a terminal-like standard output in the monitored execution.",
    "C07": "Rounds 9-13: the one-atom tree, column-major coordinate arrays, other length units (x1e-4, x1e-3, x1e3), floating-point errors raised and warnings as errors for a fifth of the batches.",
    "C08": "Rounds 9-13: sibling calculators sharing a restraint list on smaller / larger fixed sets, refused evaluations before and between valid ones, other length units, floating-point errors raised.",
    "C09": "Rounds 9-13: mobile molecules of 65..140 atoms, every single-atom proposal checked against the bond table, a terminal-like standard output, a worse proposal accepted without any random draw is a violation; the harness' own iteration cap (200 000) ends observation without a verdict.",
    "C10": "Rounds 9-13: the same restraint list object handed to a second alignment, numpy integers as indices, a valid manager call after a rejected one (with an end molecule added in between), an end molecule of another name.",
    "C11": "Rounds 9-13: a second System on the same file kept alive, the path having held another system of the same size before, coordinates that fill their column.",
    "C12": "Rounds 9-13: files of 100 KiB .. 2 MiB, values that fill their column, the file renamed away and replaced under its name after loading, a path through a linked directory (<link>/../file).",
    "C13": "Rounds 9-13: sessions of 1500..30000 records, braces / percent / backslash in names, three-digit box edges with five decimals, a relative path with the working directory changed before close.",
    "C14": "Rounds 9-13: sessions of 1020..8300 records with sampled crash points (every boundary around a power of two), a writer object dropped without close() -- also over an existing complete file of the same layout; a session that cannot complete is a C14 violation.",
    "C15": "Rounds 9-13: a refused connectivity question (partial atom list) before the real one, the open handle's name given to another file before the topology is built from it, bracketed words inside comments.",
    "C16": "Rounds 9-13: topologies of 70 KiB .. 2.2 MiB rendered from (n, seed), characters that only str.splitlines treats as line ends inside comments, the same object writing again after somebody else wrote the path, a comment-only first block of a repeated section.",
    "C17": "Rounds 9-13: points exactly at the origin, small triangles far from the origin, floating-point errors raised and warnings as errors for a third of the batches.",
    "C18": "Rounds 9-13: refused operations (wrong shapes) between valid ones, numpy integers as molecule indices.",
    "C19": "Rounds 9-13: floating-point errors raised for a quarter of the runs.",
    "C20": "Rounds 9-13: the output of an earlier run among the --auto candidates, a second run in the same process whose same relative file names denote other molecules, the input given as a symbolic link with the output defaulted.",
}
for _pid, _txt in _ADDENDA2.items():
    PROPERTIES[_pid]["level_text"] = PROPERTIES[_pid]["level_text"] + "  " + _txt

_ADDENDA3 = {
    "C01": "Rounds 14-16: molecules returned earlier and still held are re-judged after every later call (a result that moves by more than the law's tolerance is booked under the property of the call that returned it); targets of three and more residues; two-site references without a declared bond.",
    "C02": "Rounds 14-16: ONE proper rotation per collinear anchor and per 1-/2-atom reference (mutual distances and signed areas / volumes: a mirror image is not a rotation); held results re-judged; two-site references whose topology lists no bond.",
    "C03": "Rounds 14-16: held results re-judged against their own conformation after later calls.",
    "C04": "Rounds 14-16: near-miss species (same atoms under another name, one bead more) must be refused with TypeError.",
    "C05": "Rounds 14-16: several extrapolations on one manager, residue numbers with gaps inside one molecule, systems whose first atom is not number 1, non-ASCII titles.",
    "C06": "Rounds 14-16: the molecules of a finished alignment are held while another alignment runs (on the same object after re-assignment, or on another Alignment object of the same species) and must not move.",
    "C09": "Rounds 14-16: a molecule against itself at the same coordinates (the search starts at a measure of exactly 0); in a quarter of the runs the acceptance test is also judged on its own at its corners (equal measures including both 0, a lower measure of 0, a worse proposal against a held measure of 0); the array a finished search returned is compared again after a later search.",
    "C10": "Rounds 14-16: homopolymers (all residues share one name) and unequal residue counts offered through the alignment itself.",
    "C11": "Rounds 14-16: molecules handed out by index accesses are held and compared again when the history is over.",
    "C14": "Rounds 14-16: a writer whose last act was to refuse a malformed record is dropped without close.",
    "C15": "Rounds 14-16: a copy taken first and not looked at until the original has been edited (names, residue numbers, a bond).",
    "C16": "Rounds 14-16: in half of the histories the parsed object is walked (sections, lines, contents, comments) BEFORE it is written back; a second molecule definition in the same file.",
    "C18": "Rounds 14-16: in lazily verified histories a new copy is not looked at before the next comparison (a copy that duplicates on first use would otherwise be woken up by the harness).",
    "C20": "Rounds 14-16: one directory per species holding the same three file names; start and end of a species never share residue and atom names (such a pair is ambiguous for discovery and outside the domain).",
}
_ADDENDA4 = {
    "C04": "Round 17: residue names that begin with a digit and foreign species relabelled so that residue number and name, written one after the other, read the same.",
    "C05": "Round 17: titles with braces and per-cent signs.",
    "C07": "Round 17: bond tables with a few tabulated lengths shared by many bonds (two pending neighbours of exactly equal length).",
    "C09": "Round 17: the restraint list the search builds its measure from is compared with the list the search was given (a pair listed twice weighs twice).",
    "C11": "Round 17: symmetric residues in which a later atom repeats the first atom's name.",
    "C12": "Round 17: titles made of blanks only.",
    "C14": "Round 17: number-like residue and atom names in abandoned files with no declared count.",
    "C16": "Round 17: molecule names of sixteen and more characters.",
    "C19": "Round 17: rectangular boxes whose off-diagonal zeros are negative zeros.",
    "C20": "Round 17: end topologies whose molecule name differs from the start topology's (the comparison's library workflow attaches end molecules by the documented attribute route).",
}
for _pid, _txt in _ADDENDA4.items():
    PROPERTIES[_pid]["level_text"] = PROPERTIES[_pid]["level_text"] + "  " + _txt
for _pid, _txt in _ADDENDA3.items():
    PROPERTIES[_pid]["level_text"] = PROPERTIES[_pid]["level_text"] + "  " + _txt
