"""Engine registry and per-property check specifications."""
import importlib

_ENGINES = {}


def get_engine(name):
    if name not in _ENGINES:
        _ENGINES[name] = importlib.import_module("engines." + name)
    return _ENGINES[name]


REAL = "real code from the /repo working tree"

PROPERTIES = {}
NOT_APPLICABLE = {}
ENGINE_KINDS = {
    "pbc": "seeded trajectories of two residues under a box; closed-form oracle (degenerate simulation: no schedule, no fault)",
}


def _reg(pid, **kw):
    PROPERTIES[pid] = kw


_reg("C19", engine="pbc", level="exploration",
     runs={"quick": 16000, "thorough": 1600000}, block=250,
     technique="seeded trajectory generation against a brute-force minimum-image oracle, run and replayed by the simulation harness (no schedule or fault dimension exists for this pure function)",
     level_text=("Sampled, not exhaustive: seeded trajectories (walks, lattice jumps, near-half-box placements) of two residues "
                 "under orthorhombic and triclinic boxes; every step is compared with an independent brute-force minimum over "
                 "periodic images plus symmetry / lattice-shift / inverse-flag relations.  Exploration is the honest level for a "
                 "continuous input space."),
     level_note=("Pure function of (two points, a matrix): the simulator contributes seeded generation, minimisation and replay "
                 "and nothing else (DESIGN.md sec. 7).  Trusted: numpy linear algebra in the oracle; tolerance 1e-9 relative to "
                 "the coordinate/box scale."),
     rule=("each run is one seeded trajectory of two residues (random walk inside and far outside the box, integer "
           "lattice jumps applied to either one) under one box; after every step distance_to is compared with the "
           "brute-force minimum over 9^3 images (orthorhombic) and checked for symmetry, lattice-shift invariance, "
           "<= plain distance and inverse-flag agreement.  A run is non-trivial when at least one step needed a "
           "non-zero image shift; distinct = distinct sequences of (operation, outcome, image-shift vector)."),
     components={"Residue.distance_to": REAL, "Residue/AtomGro": REAL},
     schedule_dimension="none (pure function of two points and a matrix; the harness contributes seeded generation and replay only)",
     probes=["nonzero_image", "triclinic", "far_outside", "inv_flag", "point_argument"],
     assumptions=["separations within 1e-6 of an exact half box are skipped, as the property states",
                  "triclinic boxes: moderate skew only (off-diagonal <= 0.45 of the diagonal); only symmetry/shift invariance/inverse flag are asserted there"])
