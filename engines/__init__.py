"""Engine registry and per-property check specifications."""
import importlib

_ENGINES = {}


def get_engine(name):
    if name not in _ENGINES:
        _ENGINES[name] = importlib.import_module("engines." + name)
    return _ENGINES[name]


REAL = "real code from the /repo working tree"

PROPERTIES = {}
NOT_APPLICABLE = {}
ENGINE_KINDS = {
    "topo": "generated and shipped .itp files on the simulated disk: read_topology / MoleculeTop / are_connected against the generator's ground truth (stack budget as resource knob); read-write-read-write-read histories compared by an independent line classifier",
    "grofile": "GroFile writer sessions on a simulated disk (file seam: operation log, crash images, torn writes, byte truncation) read back by the real reader and an independent parser",
    "pbc": "seeded trajectories of two residues under a box; closed-form oracle (degenerate simulation: no schedule, no fault)",
}


def _reg(pid, **kw):
    PROPERTIES[pid] = kw


_reg("C19", engine="pbc", level="exploration",
     runs={"quick": 16000, "thorough": 1600000}, block=250,
     technique="seeded trajectory generation against a brute-force minimum-image oracle, run and replayed by the simulation harness (no schedule or fault dimension exists for this pure function)",
     level_text=("Sampled, not exhaustive: seeded trajectories (walks, lattice jumps, near-half-box placements) of two residues "
                 "under orthorhombic and triclinic boxes; every step is compared with an independent brute-force minimum over "
                 "periodic images plus symmetry / lattice-shift / inverse-flag relations.  Exploration is the honest level for a "
                 "continuous input space."),
     level_note=("Pure function of (two points, a matrix): the simulator contributes seeded generation, minimisation and replay "
                 "and nothing else (DESIGN.md sec. 7).  Trusted: numpy linear algebra in the oracle; tolerance 1e-9 relative to "
                 "the coordinate/box scale."),
     rule=("each run is one seeded trajectory of two residues (random walk inside and far outside the box, integer "
           "lattice jumps applied to either one) under one box; after every step distance_to is compared with the "
           "brute-force minimum over 9^3 images (orthorhombic) and checked for symmetry, lattice-shift invariance, "
           "<= plain distance and inverse-flag agreement.  A run is non-trivial when at least one step needed a "
           "non-zero image shift; distinct = distinct sequences of (operation, outcome, image-shift vector)."),
     components={"Residue.distance_to": REAL, "Residue/AtomGro": REAL},
     schedule_dimension="none (pure function of two points and a matrix; the harness contributes seeded generation and replay only)",
     probes=["nonzero_image", "triclinic", "far_outside", "inv_flag", "point_argument"],
     assumptions=["separations within 1e-6 of an exact half box are skipped, as the property states",
                  "triclinic boxes: moderate skew only (off-diagonal <= 0.45 of the diagonal); only symmetry/shift invariance/inverse flag are asserted there"])


_reg("C13", engine="grofile", level="exploration",
     runs={"quick": 40000, "thorough": 1600000}, block=250,
     technique="seeded writer sessions (configuration order, formats, counts scheduled by the PRNG) on a simulated disk; file-seam image checked by the real reader and an independent fixed-width parser",
     level_text=("Sampled writer sessions: the order in which title / box / position format / atom count are configured, "
                 "writeline vs writelines, with-block vs close, declared vs back-filled count, 1..300 records with numbers around "
                 "the five-digit limit and coordinates on rounding boundaries.  The disk image reconstructed from the file "
                 "seam's operation log is compared with the session by GroFile itself and by an independent parser."),
     level_note=("Trusted: the 25-line independent parser, Python float formatting.  Names are ASCII, non-blank, contain a "
                 "letter; values fit their field after rounding (as the property states).  No disk faults are injected here "
                 "(they belong to C14)."),
     rule=("one run = one writer session; non-trivial = the session closed and was read back; distinct = distinct "
           "(decimals, velocities, declared count, box kind, record count class) signatures"),
     components={"GroFile (writer and reader)": REAL, "dump/extract_lattice_gro": REAL, "disk": "tmpfs file behind the file seam (operation log + image reconstruction)"},
     schedule_dimension="order of writer configuration calls; writeline/writelines; with/close",
     probes=["custom_format", "velocities", "declared_count", "number_ge_99999", "triclinic_box"])

_reg("C14", engine="grofile", level="fault_enumeration",
     runs={"quick": 3200, "thorough": 100000}, block=20,
     technique="crash-point enumeration on the file seam's operation log (stop before every write/seek/close, torn writes, byte truncation), each image opened by the real reader",
     level_text=("Per sampled writer session EVERY crash point at operation granularity is enumerated (before each record, "
                 "before close, between the seek / count back-fill / seek / box / newline steps of close), every torn prefix "
                 "of the header, count back-fill and box writes and of a sample of record writes, and every byte-level "
                 "truncation of the complete file (files <= 8 KiB; larger and shipped files: all line boundaries +-3 plus a random "
                 "sample).  Sessions themselves are sampled."),
     level_note=("Oracle: an image that ends at or before the first byte of the complete file's box line must make GroFile(path) "
                 "(or reading its records) raise; an accepted image must return exactly the complete file's records.  Any "
                 "exception type counts as rejection.  Names contain a letter that cannot occur in a float literal (a purely "
                 "numeric atom line is indistinguishable from a box line in this format).  Crash model: operation log replay "
                 "(what an unbuffered writer leaves); EIO/ENOSPC/lost pages are not injected -- no property speaks about them."),
     rule=("one run = one writer session (or one shipped file) with all its crash images; non-trivial = at least one image "
           "was judged; distinct = distinct (tail of accept/reject pattern over the close sequence, record count class, declared) signatures"),
     components={"GroFile (writer and reader)": REAL, "disk": "tmpfs file; crash images rebuilt from the file seam's operation log"},
     schedule_dimension="crash point (operation index, torn prefix length, truncation offset)",
     probes=["torn_in_close", "images", "shipped_file"])


_reg("C15", engine="topo", level="exploration",
     runs={"quick": 8000, "thorough": 600000}, block=50,
     technique="seeded generation of topology files with ground truth carried in the trace; loaded through the real parsers behind the file seam; recursion limit as an injected resource budget",
     level_text=("Sampled .itp files (1..3000 atoms; trees, forests, cyclic graphs; gapped numbering; bonds spread over "
                 "bonds/constraints/pairs in any order, occasionally the same section twice; comments, blank and preprocessor "
                 "lines; ragged spacing; a fixed share of 1000..3000-atom chains).  read_topology, MoleculeTop, are_connected "
                 "(under the default and a reduced stack budget) and MoleculeTop.copy are compared with the ground truth the "
                 "generator recorded."),
     level_note=("Trusted: the harness' own model of what the generated lines mean (truth_from_ops) and union-find.  Preprocessor "
                 "lines start in column 0; atom numbers are unique; no section header carries a trailing comment."),
     rule=("one run = one generated topology; non-trivial = it loaded; distinct = distinct (load outcome, connectivity answer, "
           "copy outcome) x file shape signatures"),
     components={"ItpFile/ItpSection/ItpLine*": REAL, "read_topology": REAL, "MoleculeTop/AtomTop": REAL, "are_connected": REAL,
                 "disk": "tmpfs file behind the file seam"},
     schedule_dimension="none for the parse itself; resource knob: interpreter recursion budget",
     probes=["chain_ge_1000", "cyclic_graph", "disconnected_graph", "multi_residue"])

_reg("C16", engine="topo", level="exploration",
     runs={"quick": 8000, "thorough": 600000}, block=50,
     technique="five-step file history (read A, write B, read B, write C, read C) through the file seam; A/B/C compared by an independent line classifier and by read_topology",
     level_text=("Sampled file histories over all 16 shipped topologies and generated files with sections in any order, repeated "
                 "section names, content lines with no / empty / multiple trailing comments, comment-only lines including "
                 "commented-out preprocessor lines, blank and preprocessor lines and header text.  What the library wrote is "
                 "taken from the file seam's operation log and compared with its input section by section (content tokens, "
                 "comment and preprocessor lines and their relative positions), then B against C for stability."),
     level_note=("Trusted: the independent classifier (30 lines).  Not compared: blank lines, whitespace inside comments, an empty "
                 "comment (';' alone).  Section headers carry no trailing comment; no section is called 'header'."),
     rule=("one run = one five-step history; non-trivial = all five steps ran; distinct = distinct sets of line kinds present x "
           "number of sections"),
     components={"ItpFile.write / ItpSection.__str__ / ItpLine.line": REAL, "read_topology": REAL,
                 "disk": "tmpfs files behind the file seam (written content taken from the seam's operation log)"},
     schedule_dimension="file history read/write/read/write/read",
     probes=["repeated_section_name", "empty_trailing_comment", "commented_preprocessor", "multiple_trailing_comments", "shipped_file"])
