"""Engine `topo` (C15, C16): topology files on the simulated disk.

C15: generated .itp text -> read_topology / MoleculeTop / are_connected / copy, compared with
the generator's ground truth (derived from the trace by an independent model), with the
interpreter's recursion limit as a per-run resource knob.
C16: the five-step file history read A, write B, read B, write C, read C through the file seam;
A, B and C are compared by an independent line classifier."""
import os
import re
import sys

from sim import gen
from sim.core import HarnessError
from sim.seams import FileSeam

NAME = "topo"

BOND_SECTIONS = ("bonds", "constraints", "pairs")
OTHER_SECTIONS = ("angles", "dihedrals", "exclusions", "impropers", "position_restraints", "settles", "virtual_sites2")
SHIPPED = ["BF4_AA.itp", "BF4_CG.itp", "BMIM_AA.itp", "BMIM_CG.itp", "CUR_AA.itp", "CUR_CG.itp", "DNA_AA.itp", "DNA_CG.itp",
           "DPSM_AA.itp", "DPSM_CG.itp", "Protein_AA.itp", "Protein_CG.itp", "SDS_AA.itp", "VTE_AA.itp", "popc-AA.itp",
           "vitamin_E_CG.itp"]


# --------------------------------------------------------------------------
# generation: the trace is a list of line descriptions ("ops"), each with its text
# --------------------------------------------------------------------------

def _sp(rng):
    return rng.choice([" ", "  ", "   ", "\t", "     ", " \t "])


def _join(rng, toks, lead=True):
    s = (rng.choice(["", " ", "   ", "\t"]) if lead else "")
    for i, t in enumerate(toks):
        s += (str(t) if i == 0 else _sp(rng) + str(t))
    return s


COMMENT_WORDS = ["qtot", "0.5", "see", "table", "C-H", "bond", "type", "[", "]", "#", "x;y", "note:", "ai", "aj",
                 # characters that are line ends for str.splitlines() but not for a text file (form feed, NEL from a bad
                 # transcode, unicode line / paragraph separators, the ASCII separators)
                 "page\x0cbreak", "see\u2028below", "caf\u0085", "a\x1cb", "x\x0by", "\u2029",
                 # bracketed words inside comments (a commented-out header, an index, a reference to a section)
                 "[ angles ]", "[2]", "[bonds]", "see [ pairs ] below"]


def _comment_text(rng, allow_hash_start=True):
    n = rng.randint(0, 5)
    words = [rng.choice(COMMENT_WORDS) for _ in range(n)]
    txt = " ".join(words)
    if not allow_hash_start:
        while txt.lstrip().startswith("#"):
            txt = "c " + txt
    return txt


def _trail(rng, rich):
    """Trailing comment of a content line: none / empty / single / multiple."""
    c = rng.random()
    if not rich:
        return "" if c < 0.7 else " ; " + _comment_text(rng, False)
    if c < 0.4:
        return ""
    if c < 0.55:
        return rng.choice([";", " ;", " ; ", ";  "])                       # empty trailing comment
    if c < 0.8:
        return rng.choice([" ;", ";", " ; "]) + _comment_text(rng)
    return " ; " + _comment_text(rng) + " ; " + _comment_text(rng)          # several


def _filler(rng, rich, in_section):
    """Comment-only, blank and preprocessor lines."""
    c = rng.random()
    if c < 0.35:
        return {"k": "blank", "text": rng.choice(["", " ", "\t", "   "])}
    if c < 0.75:
        if rich and rng.random() < 0.3:
            # commented-out preprocessor line / empty comment / doubled marker / indented comment-only line
            txt = rng.choice(["; #include \"ff.itp\"", ";#ifdef FLEXIBLE", ";", ";;", "; ; nested", ";#endif", "; #define X 1",
                              "  ; indented", "\t;tabbed comment", "   ;"])
            return {"k": "comment", "text": txt}
        return {"k": "comment", "text": rng.choice([";", "; ", ";  "]) + _comment_text(rng, rich)}
    return {"k": "pp", "text": rng.choice(['#include "forcefield.itp"', "#ifdef FLEXIBLE", "#endif", "#define POSRES", "#else",
                                           "#ifndef HEAVY_H", '#include "ions.itp" ; trailing'])}


def _sec(rng, name):
    return {"k": "sec", "name": name, "text": rng.choice(["[ %s ]", "[%s]", "[  %s  ]", " [ %s ]", "[ %s ]  "]) % name}


def gen_itp(rng, tier, rich, big=None):
    """Returns ops (list of line dicts)."""
    if big is None:
        big = rng.random() < (0.10 if tier == "quick" else 0.2)
    if big:
        n = rng.randint(1000, 1400 if tier == "quick" else 3000)
        shape = rng.choice(["chain", "chain", "caterpillar", "uniform"])
    elif not rich and rng.random() < 0.06:
        # sizes around the interpreter's stack budget (default and the reduced ones of this engine), long paths
        n = rng.choice([rng.randint(61, 999), rng.randint(200, 420), rng.randint(900, 999), rng.randint(990, 999)])
        shape = rng.choice(["chain", "chain", "caterpillar"])
    else:
        n = rng.choice([1, 2, 3, rng.randint(1, 12), rng.randint(1, 60), rng.randint(1, 60)])
        shape = None
    if rich:
        n = min(n, 40)
        big = False
    # bond graph
    edges = gen.random_tree(rng, n, shape)
    c = rng.random()
    if big and rng.random() < 0.3:
        # thousands of atoms, ONE bond missing: at the far end of the numbering, in the middle, or the very first
        edges = list(edges)
        far = max(range(len(edges)), key=lambda q: max(edges[q]))
        edges.pop(rng.choice([far, far, len(edges) // 2, 0, rng.randrange(len(edges))]))
    elif c < 0.3 and n >= 2:       # forest: drop some edges
        edges = [e for e in edges if rng.random() < 0.8]
    elif c < 0.55 and n >= 3:    # cyclic
        edges = gen.add_cycles(rng, n, edges, rng.randint(1, 4))
    elif c < 0.7 and n >= 4 and not big:
        # several components, some of them with cycles (so the bond count says nothing about connectivity: a triangle
        # plus a pair has n-1 bonds, no isolated atom, and is not connected)
        labels = list(range(n))
        if rng.random() < 0.6:
            rng.shuffle(labels)
        k = rng.randint(2, min(4, n // 2))
        cuts_c = sorted(rng.sample(range(1, n), k - 1))
        comps = [labels[a:b] for a, b in zip([0] + cuts_c, cuts_c + [n])]
        edges = []
        extra_left = rng.choice([k - 1, k - 1, rng.randint(0, 4)])
        for comp in comps:
            sub = gen.random_tree(rng, len(comp))
            if len(comp) >= 3 and extra_left > 0:
                e = rng.randint(1, extra_left)
                before = len(sub)
                sub = gen.add_cycles(rng, len(comp), sub, e)
                extra_left -= len(sub) - before
            edges += [(comp[i], comp[j]) for i, j in sub]
    # atom numbering: increasing with gaps
    nr = []
    cur = rng.choice([1, 1, 1, rng.randint(2, 50)])
    for i in range(n):
        nr.append(cur)
        cur += 1 if rng.random() < 0.8 else rng.randint(2, 9)
    name = rng.choice(["MOL", "BMIM", "LIG_1", "popc", "W", "Prot-A", "Protein_chain_A", "POLY-ETHYLENE-GLYCOL-"]) + str(rng.randint(0, 99))
    n_res = rng.choice([1, 1, 2, 3, 5]) if n > 1 else 1
    n_res = min(n_res, n)
    cuts = sorted(rng.sample(range(1, n), n_res - 1)) if n_res > 1 else []
    ops = []
    for _ in range(rng.randint(0, 3)):
        f = _filler(rng, rich, False)
        if f["k"] == "blank" or f["k"] == "comment" or f["k"] == "pp":
            ops.append(dict(f, header=True))
    ops.append(_sec(rng, "moleculetype"))
    if rng.random() < 0.7:
        ops.append({"k": "comment", "text": "; Name            nrexcl"})
    ops.append({"k": "moltype", "name": name, "text": _join(rng, [name, rng.randint(1, 3)], lead=False)})
    if rng.random() < 0.5:
        ops.append({"k": "blank", "text": ""})

    atom_ops = []
    r = 0
    resid = rng.choice([1, 1, 5, 120])
    for i in range(n):
        if r < len(cuts) and i == cuts[r]:
            r += 1
            resid += rng.choice([1, 1, 2])
        resname = "R%s" % chr(65 + r % 26) if n_res > 1 else "RES"
        if n_res > 1 and rng.random() < 0.3 and r > 0:
            resname = "RA"            # equal residue names with different numbers
        an = gen.atom_name(rng, i, rng.random() < 0.2)
        toks = [nr[i], "opls_%03d" % rng.randint(1, 900), resid, resname, an, rng.randint(1, n)]
        extra = rng.random()
        if extra < 0.8:
            toks.append("%.4f" % rng.uniform(-1, 1))
            if extra < 0.65:
                toks.append("%.4f" % rng.uniform(1, 40))
                if extra < 0.1:
                    toks += ["opls_001", "0.0", "1.008"]
        atom_ops.append({"k": "atom", "nr": nr[i], "name": an, "resname": resname, "resid": resid,
                         "text": _join(rng, toks) + (_trail(rng, rich) if not big or rng.random() < 0.1 else "")})

    # bonds distributed over sections
    use_secs = [s for s in BOND_SECTIONS if rng.random() < 0.7] or ["bonds"]
    if not edges and rng.random() < 0.6:
        use_secs = []            # a single bead / an ion: no bond section of any kind in the file
    per = {s: [] for s in use_secs}
    for (i, j) in edges:
        if rng.random() < 0.5:
            i, j = j, i
        per[rng.choice(use_secs)].append((i, j))
    # a duplicate listing of some pair in another section is legal
    if edges and use_secs and rng.random() < 0.3:
        i, j = rng.choice(edges)
        per[rng.choice(use_secs)].append((j, i))

    def bond_ops(pairs):
        out = []
        for (i, j) in pairs:
            toks = [nr[i], nr[j]]
            c = rng.random()
            if c < 0.8:
                toks.append(rng.choice([1, 1, 2, 6]))
                if c < 0.6:
                    toks += ["%.5e" % rng.uniform(0.09, 0.2), "%.5e" % rng.uniform(1e3, 4e5)]
                    if c < 0.05:
                        toks.append("gb_21")
            out.append({"k": "bond", "i": nr[i], "j": nr[j],
                        "text": _join(rng, toks) + (_trail(rng, rich) if not big or rng.random() < 0.05 else "")})
        return out

    blocks = [("atoms", atom_ops)]
    for s in use_secs:
        pairs = per[s]
        if rich and len(pairs) >= 2 and rng.random() < 0.5 or (not rich and len(pairs) >= 2 and rng.random() < 0.08):
            if rng.random() < 0.2:
                # the first occurrence holds NO content line at all (a legend and a preprocessor guard), the entries follow
                # under a second header of the same name
                blocks.append((s, [{"k": "comment", "text": ";  ai    aj  funct"}, {"k": "pp", "text": "#ifdef FLEXIBLE"}]))
                blocks.append((s, bond_ops(pairs) + [{"k": "pp", "text": "#endif"}]))
                continue
            cut = rng.randint(1, len(pairs) - 1)          # the same section name twice ...
            if len(pairs) >= 3 and rng.random() < 0.4:     # ... or three times
                cut2 = rng.randint(cut + 1, len(pairs)) if cut + 1 <= len(pairs) - 1 else None
                if cut2 is not None and cut2 < len(pairs):
                    blocks.append((s, bond_ops(pairs[:cut])))
                    blocks.append((s, bond_ops(pairs[cut:cut2])))
                    blocks.append((s, bond_ops(pairs[cut2:])))
                    continue
            blocks.append((s, bond_ops(pairs[:cut])))
            blocks.append((s, bond_ops(pairs[cut:])))
        else:
            blocks.append((s, bond_ops(pairs)))
    for s in OTHER_SECTIONS:
        if rng.random() < (0.35 if rich else 0.15) and n >= 4:
            lines = []
            for _ in range(rng.randint(1, 4)):
                k = {"angles": 3, "dihedrals": 4, "impropers": 4}.get(s, 2)
                ids = [nr[rng.randrange(n)] for _ in range(k)]
                lines.append({"k": "other", "text": _join(rng, ids + [rng.choice([1, 2, 9]), "%.3f" % rng.uniform(0, 180)]) + _trail(rng, rich)})
            blocks.append((s, lines))
            if s == "dihedrals" and rng.random() < 0.6:    # repeated [ dihedrals ] as in the shipped AA files
                for _rep in range(rng.choice([1, 1, 2])):
                    blocks.append((s, [{"k": "other", "text": _join(rng, [nr[rng.randrange(n)] for _ in range(4)] + [2, "0.0", "167.4"])}]))
    first = blocks[0]
    rest = blocks[1:]
    if rng.random() < 0.5:
        rng.shuffle(rest)
    if rng.random() < 0.15:      # bond sections may come before [ atoms ]
        pos = rng.randint(0, len(rest))
        blocks = rest[:pos] + [first] + rest[pos:]
    else:
        blocks = [first] + rest
    p_fill = 0.0 if big else (0.25 if rich else 0.1)
    for sname, lines in blocks:
        ops.append(_sec(rng, sname))
        if sname == "atoms" and rng.random() < 0.6:
            ops.append({"k": "comment", "text": ";   nr       type  resnr residue  atom   cgnr     charge       mass"})
        for l in lines:
            while rng.random() < p_fill:
                ops.append(_filler(rng, rich, True))
            ops.append(l)
        while rng.random() < max(p_fill, 0.3):
            ops.append(_filler(rng, rich, True))
    if rich and not big and rng.random() < 0.08:
        # a SECOND molecule definition in the same file (a topology that defines two molecules): [ moleculetype ] and
        # [ atoms ] (and [ bonds ]) occur again; like any repeated section their lines must survive the round trip
        ops.append(_sec(rng, "moleculetype"))
        ops.append({"k": "moltype", "name": name + "B", "text": _join(rng, [name + "B", rng.randint(1, 3)], lead=False)})
        ops.append(_sec(rng, "atoms"))
        n2 = rng.randint(1, 3)
        nr2 = [cur + 1 + k_ for k_ in range(n2)]
        for k_, a_nr in enumerate(nr2):
            an = "Z%d" % (k_ + 1)
            ops.append({"k": "atom", "nr": a_nr, "name": an, "resname": "SOLB", "resid": resid + 1,
                        "text": _join(rng, [a_nr, "opls_%03d" % rng.randint(1, 900), resid + 1, "SOLB", an, k_ + 1, "0.0", "16.0"])
                        + _trail(rng, rich)})
        if n2 >= 2:
            ops.append(_sec(rng, "bonds"))
            for k_ in range(n2 - 1):
                ops.append({"k": "bond", "i": nr2[k_], "j": nr2[k_ + 1], "text": _join(rng, [nr2[k_], nr2[k_ + 1], 1])})
        if rng.random() < 0.5:
            ops.append(_sec(rng, "position_restraints"))
            ops.append({"k": "comment", "text": "; only in the second molecule"})
            ops.append({"k": "other", "text": _join(rng, [nr2[0], 1, 1000, 1000, 1000])})
    final_newline = rng.random() < 0.9
    return ops, final_newline


def render(ops, final_newline=True):
    text = "\n".join(o["text"] for o in ops)
    return text + ("\n" if final_newline else "")


def render_large(spec):
    """A topology of `n` atoms in one chain, rendered from (n, seed): header text, preprocessor lines, content lines with no /
    empty / single / double trailing comments, a repeated section -- file sizes from ~70 KiB to over 2 MiB (read buffers, chunked
    reads and size-dependent shortcuts have their seams at 64 KiB and 1 MiB)."""
    import random
    r = random.Random(spec["seed"])
    n = spec["n"]
    trail = ["", "", "", " ;", " ; qtot 0.5", " ; a ; b", ";c"]
    out = ["; generated large topology", '#include "forcefield.itp"', "", "[ moleculetype ]", "; Name nrexcl", "BIG%d   3" % (n % 97), "",
           "[ atoms ]", ";   nr  type  resnr residue  atom   cgnr     charge       mass"]
    for i in range(n):
        out.append("%6d  opls_%03d %5d  R%s   C%d  %6d   %8.4f   %8.4f%s" % (i + 1, r.randint(1, 900), 1 + i // 50, chr(65 + (i // 50) % 26),
                                                                            i % 1000, i + 1, r.uniform(-1, 1), r.uniform(1, 40),
                                                                            trail[r.randrange(len(trail))] if r.random() < 0.2 else ""))
        if r.random() < 0.002:
            out.append(r.choice(["; block", "", "#ifdef HEAVY_H", "#endif"]))
    cut = r.randint(1, max(1, n - 2))
    for a, b in ((0, cut), (cut, n - 1)):
        out += ["", "[ bonds ]"]
        for i in range(a, b):
            out.append("%6d %6d   1 %s" % (i + 1, i + 2, trail[r.randrange(len(trail))] if r.random() < 0.1 else ""))
    out += ["", "[ angles ]"]
    for i in range(0, max(0, n - 2), max(1, n // 200)):
        out.append("%6d %6d %6d  1  109.5  520.0" % (i + 1, i + 2, i + 3))
    return "\n".join(out) + "\n"


def generate(rng, tier, focus):
    if focus == "C16":
        c = rng.random()
        if c < 0.002:
            return {"focus": focus, "large": {"n": rng.randint(16000, 26000), "seed": rng.randrange(2 ** 31)}, "via": "path"}
        if c < 0.008:
            return {"focus": focus, "large": {"n": rng.choice([rng.randint(900, 1300), rng.randint(1800, 2600), rng.randint(3500, 5000)]),
                                              "seed": rng.randrange(2 ** 31)}, "via": rng.choice(["path", "copy", "open_file"])}
        if rng.random() < (0.12 if tier == "quick" else 0.05):
            small = [s for s in SHIPPED if s not in ("DNA_AA.itp", "DNA_CG.itp")]
            return {"focus": focus, "shipped": rng.choice(SHIPPED if tier == "thorough" or rng.random() < 0.1 else small),
                    "via": rng.choice(["path", "path", "copy", "open_file"])}
        ops, fn = gen_itp(rng, tier, rich=True)
        return {"focus": focus, "ops": ops, "final_newline": fn,
                "via": rng.choice(["path", "path", "path", "copy", "copy_second", "open_file"])}
    ops, fn = gen_itp(rng, tier, rich=False)
    lim = rng.choice([None, None, None, 250, 400])
    return {"focus": focus, "ops": ops, "final_newline": fn, "reclimit": lim,
            "how": rng.choice(["path", "path", "path", "upper_ext", "open_file", "forced_format"])}


def abbreviate(trace):
    if "shipped" in trace or "large" in trace:
        return trace
    t = dict(trace)
    t["n_lines"] = len(trace["ops"])
    t["ops"] = [o["text"] for o in trace["ops"][:14]]
    return t


# --------------------------------------------------------------------------
# ground truth from the trace (independent model)
# --------------------------------------------------------------------------

def truth_from_ops(ops):
    """Returns None when the trace is not a well-formed topology (possible after shrinking)."""
    sec = None
    name = None
    atoms = []
    number_to_pos = {}
    pairs = {s: [] for s in BOND_SECTIONS}
    for o in ops:
        if o["k"] == "sec":
            sec = o["name"]
        elif o["k"] == "moltype":
            if sec != "moleculetype":
                return None
            if name is None:
                name = o["name"]
        elif o["k"] == "atom":
            if sec != "atoms":
                return None
            if o["nr"] in number_to_pos:
                return None
            number_to_pos[o["nr"]] = len(atoms)
            atoms.append((o["name"], o["resname"], o["resid"]))
        elif o["k"] == "bond":
            if sec not in BOND_SECTIONS:
                return None
            pairs[sec].append((o["i"], o["j"]))
        elif o["k"] == "other":
            if sec in BOND_SECTIONS or sec in ("atoms", "moleculetype", None):
                return None
        elif o["k"] in ("comment", "pp", "blank"):
            if o.get("header") and sec is not None:
                return None
    if name is None or not atoms:
        return None
    edges = set()
    for s in BOND_SECTIONS:
        for i, j in pairs[s]:
            if i not in number_to_pos or j not in number_to_pos or i == j:
                return None
            edges.add(frozenset((number_to_pos[i], number_to_pos[j])))
    return {"name": name, "atoms": atoms, "edges": edges}


# --------------------------------------------------------------------------
# C15
# --------------------------------------------------------------------------

def execute(trace, ctx):
    if trace["focus"] == "C16":
        return execute_c16(trace, ctx)
    P = "C15"
    from gaddlemaps.parsers import read_topology
    from gaddlemaps.components import MoleculeTop, are_connected
    truth = truth_from_ops(trace["ops"])
    if truth is None:
        ctx.op("load", "invalid-trace")
        return
    d = ctx.tmpdir()
    how = trace.get("how", "path")
    path = os.path.join(d, {"upper_ext": "MOL.ITP", "forced_format": "mol.top_like"}.get(how, "mol.itp"))
    with open(path, "w") as f:
        f.write(render(trace["ops"], trace.get("final_newline", True)))
    n = len(truth["atoms"])
    seam = FileSeam(ctx)
    with seam:
        try:
            if how == "open_file":
                with open(path) as fh:
                    name, atoms_info, bonds = read_topology(fh)
                with open(path) as fh:
                    if len(trace["ops"]) % 2 == 0:
                        # between open() and the load the NAME is given to another file (the original renamed away, a
                        # different topology written in its place): the handle still is the file that was opened
                        os.rename(path, path + ".moved")
                        with open(path, "w") as other_:
                            other_.write("[ moleculetype ]\nIMPOSTOR 1\n[ atoms ]\n1 C 1 IMP X1 1 0.0 12.0\n2 C 1 IMP X2 2 0.0 12.0\n[ bonds ]\n1 2\n")
                        ctx.fault("path_given_to_another_file_after_open")
                    mt = MoleculeTop(fh)
                if os.path.exists(path + ".moved"):
                    os.replace(path + ".moved", path)
                ctx.probe("loaded_from_open_file")
            elif how == "forced_format":
                name, atoms_info, bonds = read_topology(path, file_format="itp")
                mt = MoleculeTop(path, file_format="itp")
            else:
                name, atoms_info, bonds = read_topology(path)
                mt = MoleculeTop(path)
        except Exception as e:
            ctx.op("load", "raised")
            ctx.violate(P, "load-raised", f"loading a well-formed topology raised {type(e).__name__}: {e}", key=type(e).__name__)
            return
    ctx.op("load", "ok")
    ctx.nontrivial = True
    if name != truth["name"] or mt.name != truth["name"]:
        ctx.violate(P, "name", f"molecule name {name!r}/{mt.name!r}, file says {truth['name']!r}")
    got_atoms = [tuple(a) for a in atoms_info]
    if got_atoms != truth["atoms"]:
        k = next((i for i, (a, b) in enumerate(zip(got_atoms, truth["atoms"])) if a != b), min(len(got_atoms), n))
        ctx.violate(P, "atoms", f"{len(got_atoms)} atoms read, {n} in file; first difference at position {k}: "
                                f"{got_atoms[k] if k < len(got_atoms) else None} vs {truth['atoms'][k] if k < n else None}")
    mt_atoms = [(a.name, a.resname, a.resid) for a in mt]
    if mt_atoms != truth["atoms"]:
        ctx.violate(P, "moleculetop-atoms", "MoleculeTop atoms differ from the file's atom records")
    # residue labels as the topology reports them: runs of equal (name, number)
    runs = []
    for (an, rn, ri) in truth["atoms"]:
        if runs and runs[-1][0] == (rn, ri):
            runs[-1][1] += 1
        else:
            runs.append([(rn, ri), 1])
    try:
        if list(mt.resnames) != [r[0][0] for r in runs] or list(mt.resids) != [r[0][1] for r in runs] or \
                [tuple(x) for x in mt.resname_len_list] != [(r[0][0], r[1]) for r in runs]:
            ctx.violate(P, "residue-labels", f"resnames / resids / resname_len_list = {list(mt.resnames)[:6]} / {list(mt.resids)[:6]} / "
                                             f"{list(mt.resname_len_list)[:6]}; the file's residue runs are {[(r[0], r[1]) for r in runs][:6]}")
    except Exception as e:
        ctx.violate(P, "residue-labels", f"reading resnames / resids / resname_len_list raised {type(e).__name__}: {e}")
    got_edges = {frozenset(b) for b in bonds}
    if any(len(e) != 2 for e in got_edges) or got_edges != truth["edges"]:
        missing = sorted(tuple(sorted(e)) for e in truth["edges"] - got_edges)[:5]
        extra = sorted(tuple(sorted(e)) for e in got_edges - truth["edges"])[:5]
        ctx.violate(P, "bond-set", f"bond set differs from the file's bonds/constraints/pairs: missing {missing} extra {extra}",
                    key="missing" if missing else "extra")
    adj = gen.adjacency(n, [tuple(e) for e in truth["edges"]])
    if len(mt) == n:
        for i, a in enumerate(mt):
            if set(a.bonds) != adj[i]:
                ctx.violate(P, "atom-bonds", f"atom {i}: bonds {sorted(a.bonds)} but the file connects it to {sorted(adj[i])}")
                break
            if a.index != i:
                ctx.violate(P, "atom-index", f"atom at position {i} has index {a.index}")
                break
    # connectivity under the run's stack budget
    want = gen.is_connected(n, [tuple(e) for e in truth["edges"]])
    if n >= 1000:
        ctx.probe("chain_ge_1000")
    if len(truth["edges"]) >= n and n >= 3:
        ctx.probe("cyclic_graph")
    if not want:
        ctx.probe("disconnected_graph")
    if len({r for _, _, r in truth["atoms"]}) > 1:
        ctx.probe("multi_residue")
    if n >= 3 and len(trace["ops"]) % 3 == 0:
        # a question the function cannot answer (the first atoms only, with bonds pointing outside the list): whatever it
        # does with it, the next question about the whole molecule must get its own answer
        try:
            are_connected(mt.atoms[:max(1, n // 3)])
        except Exception:
            ctx.fault("refused_connectivity_call")
        ctx.probe("partial_atom_list_asked_first")
    old = sys.getrecursionlimit()
    lim = trace.get("reclimit")
    # the budget is always set relative to the current depth, so that the outcome does not depend on how deep
    # the harness' own call stack happens to be (pool worker, shrinker, replay): 950 ~ a default interpreter
    depth = len(_stack())
    sys.setrecursionlimit(depth + (lim or 950))
    if lim:
        ctx.fault("low_stack_budget")
    try:
        try:
            got = are_connected(mt.atoms)
        finally:
            sys.setrecursionlimit(old)
    except RecursionError:
        ctx.op("connected", "recursion-error")
        ctx.violate(P, "connectivity-recursion", f"are_connected raised RecursionError on a {n}-atom graph "
                                                 f"(recursion budget {'default' if not lim else '+%d frames' % lim})",
                    key="RecursionError")
        got = None
    except Exception as e:
        ctx.violate(P, "connectivity-raised", f"are_connected raised {type(e).__name__}: {e}")
        got = None
    if got is not None:
        ctx.op("connected", str(bool(got)))
        if bool(got) != want:
            ctx.violate(P, "connectivity", f"are_connected={got} but the graph of {n} atoms / {len(truth['edges'])} bonds is "
                                           f"{'connected' if want else 'not connected'}")
    # the path is re-used: a same-length variant (one atom renamed) is written over it and loaded again
    if trace.get("reload", True) and n <= 200:
        variant = _same_length_variant(render(trace["ops"], trace.get("final_newline", True)))
        if variant is not None:
            first_atom_new = None
            try:
                with open(path, "w") as f:
                    f.write(variant)
                name2, atoms2, bonds2 = read_topology(path) if how != "forced_format" else read_topology(path, file_format="itp")
                mt2 = MoleculeTop(path) if how != "forced_format" else MoleculeTop(path, file_format="itp")
                names_now = [tuple(a)[0] for a in atoms2]
                names_mt = [a.name for a in mt2]
                want_names = [a[0] for a in truth["atoms"]]
                diff = [k for k in range(min(len(names_now), n)) if names_now[k] != want_names[k]]
                if len(names_now) != n or len(diff) != 1 or names_mt != names_now or \
                        {frozenset(b) for b in bonds2} != truth["edges"] or name2 != truth["name"]:
                    ctx.violate(P, "reload-after-overwrite", f"the file was replaced by a variant with ONE atom renamed; the reader now "
                                                             f"reports {len(diff)} renamed atoms (names {names_now[:5]}...)")
                ctx.probe("path_overwritten_and_loaded_again")
            except Exception as e:
                ctx.violate(P, "reload-after-overwrite", f"loading the replaced file raised {type(e).__name__}: {e}")
    # copy: equal but independent
    try:
        cold = mt.copy()      # not looked at until the original has been edited (a copy that duplicates lazily is no copy)
        cp = mt.copy()
    except Exception as e:
        ctx.violate(P, "copy-raised", f"MoleculeTop.copy raised {type(e).__name__}: {e}")
        return
    try:
        _check_copy(ctx, P, mt, cp, truth, want, n)
        # the original is edited further (all of it is the harness's own doing), THEN the untouched copy is read
        if n >= 1:
            mt[0].resname = "EDT"
            mt[n - 1].name = "E9"
            mt[n - 1].resid = 4242
            mt.name = "EDITED"
        adj0 = gen.adjacency(n, [tuple(e) for e in truth["edges"]])
        want_cold = [(an, rn, ri, i, frozenset(adj0[i])) for i, (an, rn, ri) in enumerate(truth["atoms"])]
        got_cold = _fields(cold)
        if got_cold != want_cold or cold.name != truth["name"]:
            k = next((i for i, (a, b) in enumerate(zip(got_cold, want_cold)) if a != b), min(len(got_cold), n))
            ctx.violate(P, "copy-not-independent",
                        f"a copy taken before the original was edited (and not looked at until afterwards) shows the edits: name "
                        f"{cold.name!r}, atom {k}: {got_cold[k] if k < len(got_cold) else None} vs "
                        f"{want_cold[k] if k < n else None}", key="cold-copy")
        if n <= 400:
            try:
                if bool(are_connected(cold.atoms)) != want:
                    ctx.violate(P, "connectivity", f"are_connected on the atoms of a copy taken before the original was edited "
                                                   f"says {not want}; the copied graph is "
                                                   f"{'connected' if want else 'not connected'}", key="cold-copy")
            except RecursionError:
                pass
        ctx.probe("cold_copy_read_after_edits")
    except Exception as e:
        import traceback
        ctx.violate(P, "copy-raised", f"working with a copy raised {type(e).__name__}: {e}\n{traceback.format_exc()[-500:]}")
    ctx.op("copy", "ok")


def _fields(top):
    return [(a.name, a.resname, a.resid, a.index, frozenset(a.bonds)) for a in top]


def _check_copy(ctx, P, mt, cp, truth, want, n):
    from gaddlemaps.components import are_connected
    if not (cp == mt) or (cp != mt):
        ctx.violate(P, "copy-not-equal", "a fresh copy does not compare equal to the original")
    if cp.name != mt.name or len(cp) != len(mt):
        ctx.violate(P, "copy-not-equal", "copy has another name or length")
    # equal field by field (the library's == does not look at everything)
    adj = gen.adjacency(n, [tuple(e) for e in truth["edges"]])
    want_fields = [(an, rn, ri, i, frozenset(adj[i])) for i, (an, rn, ri) in enumerate(truth["atoms"])]
    for who, top in (("copy", cp), ("copy of the copy", cp.copy())):
        got_f = _fields(top)
        if got_f != want_fields:
            k = next((i for i, (a, b) in enumerate(zip(got_f, want_fields)) if a != b), min(len(got_f), n))
            ctx.violate(P, "copy-not-equal", f"the {who} differs from the file's topology at atom {k}: "
                                             f"{got_f[k] if k < len(got_f) else None} vs {want_fields[k] if k < n else None}")
            break
    if n <= 400:
        try:
            if bool(are_connected(cp.atoms)) != want:
                ctx.violate(P, "connectivity", f"are_connected on the COPY's atoms says {not want}; the graph is "
                                               f"{'connected' if want else 'not connected'}")
        except RecursionError:
            pass
    shared = [i for i in range(min(len(cp), len(mt))) if cp[i] is mt[i] or cp[i].bonds is mt[i].bonds]
    if shared or cp.atoms is mt.atoms:
        ctx.violate(P, "copy-shares-objects", f"copy shares atom / bond-set objects with the original at positions {shared[:5]}")
    snapshot = _fields(mt)
    if len(cp) >= 1:
        cp[0].name = "ZZ9"
        cp[0].resname = "QQQ"
        cp[0].resid = 777
        if len(cp) >= 2:
            k = len(cp) - 1
            if k in cp[0].bonds:
                cp[0].bonds.discard(k)
                cp[k].bonds.discard(0)
            else:
                cp[0].connect(cp[k])
        cp.name = "OTHER"
    after = _fields(mt)
    if after != snapshot or mt.name != truth["name"]:
        ctx.violate(P, "copy-not-independent", "modifying the copy changed the original topology")
    # the other direction, and a copy taken AFTER the original was edited: a bond is added between two components (or
    # between the first and the last atom), the connectivity answer and a new copy must follow
    if 2 <= n <= 400:
        comp = _component(adj, 0)
        other = next((i for i in range(n) if i not in comp), None)
        j = other if other is not None else n - 1
        if j not in adj[0] and j != 0:
            before_cp = _fields(cp)
            mt[0].connect(mt[j])
            new_edges = set(truth["edges"]) | {frozenset((0, j))}
            want2 = gen.is_connected(n, [tuple(e) for e in new_edges])
            if _fields(cp) != before_cp:
                ctx.violate(P, "copy-not-independent", "adding a bond to the original changed the copy taken before")
            try:
                got2 = bool(are_connected(mt.atoms))
                if got2 != want2:
                    ctx.violate(P, "connectivity", f"after connecting atoms 0 and {j}: are_connected={got2}, the graph is "
                                                   f"{'connected' if want2 else 'not connected'}", key="after-connect")
            except RecursionError:
                pass
            adj2 = gen.adjacency(n, [tuple(e) for e in new_edges])
            cp2 = mt.copy()
            want_f2 = [(an, rn, ri, i, frozenset(adj2[i])) for i, (an, rn, ri) in enumerate(truth["atoms"])]
            if _fields(cp2) != want_f2:
                ctx.violate(P, "copy-not-equal", "a copy taken after a bond was added to the original does not carry the topology as it "
                                                 "is now")
            ctx.probe("copy_after_edit")


def _component(adj, root):
    seen = {root}
    todo = [root]
    while todo:
        v = todo.pop()
        for w in adj[v]:
            if w not in seen:
                seen.add(w)
                todo.append(w)
    return seen


def _stack():
    f = sys._getframe()
    out = []
    while f is not None:
        out.append(f)
        f = f.f_back
    return out


def simplify(trace):
    if "ops" not in trace:
        return
    if trace.get("reclimit"):
        t = dict(trace)
        t["reclimit"] = None
        yield t
    # strip trailing comments / ragged spacing from single lines
    for i, o in enumerate(trace["ops"]):
        if o["k"] in ("atom", "bond", "other") and ";" in o["text"]:
            no = dict(o, text=o["text"].split(";")[0])
            t = dict(trace)
            t["ops"] = trace["ops"][:i] + [no] + trace["ops"][i + 1:]
            yield t


# --------------------------------------------------------------------------
# C16
# --------------------------------------------------------------------------

def classify(text):
    """Independent line classifier.  Returns (header_lines, {section: [items]}, [section order])."""
    header = []
    sections = {}
    order = []
    sec = None
    for raw in text.split("\n"):
        line = raw.rstrip("\r")
        s = line.strip()
        if s.startswith("[") and "]" in s:
            sec = s[1:s.rindex("]")].strip()
            if sec not in sections:
                sections[sec] = []
                order.append(sec)
            continue
        if sec is None:
            header.append(line)
            continue
        if not s:
            continue
        if line.startswith("#"):
            sections[sec].append(("pp", " ".join(s.split())))
            continue
        if ";" in line:
            content, comment = line.split(";", 1)
        else:
            content, comment = line, ""
        toks = tuple(content.split())
        ctext = " ".join(comment.replace(";", " ; ").split())
        if toks:
            sections[sec].append(("content", toks, ctext))
        elif ctext:
            sections[sec].append(("comment", ctext))
    return header, sections, order


def compare_files(ctx, P, a_text, b_text, what):
    ha, sa, oa = classify(a_text)
    hb, sb, ob = classify(b_text)
    ok = True
    # header: non-blank lines must survive verbatim, in order
    if [l for l in ha if l.strip()] != [l for l in hb if l.strip()]:
        ctx.violate(P, "header", f"{what}: header text before the first section changed")
        ok = False
    if oa != ob:
        ctx.violate(P, "section-order", f"{what}: sections {oa} became {ob}")
        return False
    for sec in oa:
        ia, ib = sa[sec], sb[sec]
        if ia == ib:
            continue
        ok = False
        ca = [x[1] for x in ia if x[0] == "content"]
        cb = [x[1] for x in ib if x[0] == "content"]
        if ca != cb:
            k = next((i for i, (x, y) in enumerate(zip(ca, cb)) if x != y), min(len(ca), len(cb)))
            ctx.violate(P, "content-lines", f"{what}: section [{sec}] has {len(ca)} content lines before and {len(cb)} after; "
                                            f"first difference at content line {k}: {ca[k] if k < len(ca) else None} -> "
                                            f"{cb[k] if k < len(cb) else None}", key="content")
        else:
            k = next((i for i, (x, y) in enumerate(zip(ia, ib)) if x != y), min(len(ia), len(ib)))
            ctx.violate(P, "comment-lines", f"{what}: section [{sec}] comment/preprocessor lines differ at item {k}: "
                                            f"{ia[k] if k < len(ia) else None} -> {ib[k] if k < len(ib) else None}", key="comment")
    return ok


def _norm_comment(c):
    return " ".join(c.replace(";", " ; ").split())


def objects_match(ctx, P, itp, text, what):
    """What RE-READING yields, as objects: sections in order of first appearance; per section the content lines (the list
    itself) token by token, and every line (`.lines`) with its content and comment, against the independent classifier."""
    _h, want, order = classify(text)
    try:
        got_order = [str(k) for k in itp.keys() if str(k) != "header"]      # ("header": the text before the first section)
        if got_order != order:
            ctx.violate(P, "section-order", f"{what}: the parsed object has sections {got_order}, the file {order}", key="object")
            return
        for sec in order:
            section = itp[sec]
            w_content = [it for it in want[sec] if it[0] == "content"]
            g_content = [tuple(l.content.split()) for l in section]
            if g_content != [it[1] for it in w_content]:
                k = next((i for i, (x, y) in enumerate(zip(g_content, [it[1] for it in w_content])) if x != y),
                         min(len(g_content), len(w_content)))
                ctx.violate(P, "content-lines", f"{what}: parsed section [{sec}] holds {len(g_content)} content lines, the file "
                                                f"{len(w_content)}; first difference at {k}", key="object")
                return
            g_all = []
            for l in section.lines:
                toks = tuple(l.content.split())
                c = _norm_comment(l.comment)
                if toks:
                    g_all.append(("content", toks, c))
                elif c:
                    g_all.append(("other", c))
            w_all = [it if it[0] == "content" else ("other", _norm_comment(it[1])) for it in want[sec]]
            w_all = [it for it in w_all if it[0] == "content" or it[1]]
            if g_all != w_all:
                k = next((i for i, (x, y) in enumerate(zip(g_all, w_all)) if x != y), min(len(g_all), len(w_all)))
                ctx.violate(P, "comment-lines", f"{what}: the lines of parsed section [{sec}] differ from the file's at item {k}: "
                                                f"{g_all[k] if k < len(g_all) else None} vs {w_all[k] if k < len(w_all) else None}",
                            key="object")
                return
    except Exception as e:
        ctx.violate(P, "history-raised", f"{what}: inspecting the parsed object raised {type(e).__name__}: {e}", key="object")


def execute_c16(trace, ctx):
    P = "C16"
    from gaddlemaps.parsers import ItpFile, read_topology
    d = ctx.tmpdir()
    pa = os.path.join(d, "A.itp")
    if "shipped" in trace:
        import gaddlemaps
        with open(gaddlemaps.DATA_FILES_PATH[trace["shipped"]]) as f:
            a_text = f.read()
        ctx.probe("shipped_file")
    elif "large" in trace:
        a_text = render_large(trace["large"])
        ctx.probe("large_file_%s" % ("over_1MiB" if len(a_text) > 2 ** 20 else "64KiB_to_1MiB" if len(a_text) > 2 ** 16 else "small"))
    else:
        if truth_from_ops(trace["ops"]) is None:
            ctx.op("history", "invalid-trace")
            return
        a_text = render(trace["ops"], trace.get("final_newline", True))
    with open(pa, "w") as f:
        f.write(a_text)
    pb, pc = os.path.join(d, "B.itp"), os.path.join(d, "C.itp")
    seam = FileSeam(ctx)
    texts = {"A": a_text}
    tops = {}
    with seam:
        step = "read A"
        via = trace.get("via", "path")
        try:
            if via == "open_file":
                with open(pa) as fh:
                    fa = ItpFile(fh)
                ctx.probe("read_from_open_file")
            else:
                fa = ItpFile(pa)
            if via == "copy":
                step = "copy A"
                fa = fa.copy()             # the alternative constructor: what is written is the copy
                ctx.probe("written_from_a_copy")
            inspect_first = len(a_text) % 2 == 1
            if inspect_first:
                # read, LOOK, write: the caller walks over the parsed object (sections, lines, contents, comments) before
                # writing it back; looking at it is not an edit
                step = "inspect A"
                objects_match(ctx, P, fa, a_text, "first read of A")
                ctx.probe("object_inspected_before_it_is_written")
            step = "write B"
            fa.write(pb)
            if len(a_text) % 3 == 0 and len(a_text) < 200000:
                # the path is re-written by SOMEBODY ELSE (another topology), then the same object writes to it again: the
                # file must hold this object's content afterwards
                step = "write B again after another writer"
                with open(pb, "w") as other_:
                    other_.write("; somebody else's file\n[ moleculetype ]\nOTHER 1\n[ atoms ]\n1 C 1 OTH C1 1 0.0 12.0\n")
                fa.write(pb)
                ctx.probe("same_object_writes_again_after_another_writer")
            del fa
            texts["B"] = _read_image(seam, pb) if not (len(a_text) % 3 == 0 and len(a_text) < 200000) else open(pb).read()
            step = "read B"
            fb = ItpFile(pb)
            if via == "copy_second":
                step = "copy B"
                fb = fb.copy()
                ctx.probe("written_from_a_copy")
            if inspect_first:
                step = "inspect B"
                objects_match(ctx, P, fb, a_text, "re-read of B (before it is written again)")
            step = "write C"
            fb.write(pc)
            del fb
            texts["C"] = _read_image(seam, pc)
            step = "read C"
            fc = ItpFile(pc)
            # the objects the re-reads yield, judged against the ORIGINAL text
            objects_match(ctx, P, ItpFile(pb), a_text, "re-read of B")
            objects_match(ctx, P, fc, a_text, "re-read of C")
            del fc
        except Exception as e:
            ctx.op("history", "raised:" + step)
            ctx.violate(P, "history-raised", f"step '{step}' raised {type(e).__name__}: {e}", key=step)
            return
        for k, p in (("A", pa), ("B", pb), ("C", pc)):
            try:
                tops[k] = read_topology(p)
            except Exception as e:
                ctx.violate(P, "topology-raised", f"read_topology({k}) raised {type(e).__name__}: {e}", key=k)
                return
        if "ops" in trace and trace.get("overwrite", True):
            # in-place update: a second topology of the SAME byte length is read from its own path and written over the path
            # A was read from; reading that path again must give the second topology, not A
            a2 = _same_length_variant(a_text)
            if a2 is not None and a2 != a_text:
                p2 = os.path.join(d, "A2.itp")
                with open(p2, "w") as f:
                    f.write(a2)
                try:
                    f2 = ItpFile(p2)
                    f2.write(pa)
                    del f2
                    over = _read_image(seam, pa)
                    again = ItpFile(pa)
                    pd = os.path.join(d, "D.itp")
                    again.write(pd)
                    del again
                    texts["A2"] = a2
                    texts["D"] = _read_image(seam, pd)
                    ctx.probe("path_overwritten_and_read_again")
                except Exception as e:
                    ctx.violate(P, "history-raised", f"overwriting A with a same-length topology and reading it again raised "
                                                     f"{type(e).__name__}: {e}", key="overwrite")
                    return
    ctx.nontrivial = True
    if "D" in texts:
        compare_files(ctx, P, texts["A2"], texts["D"], "A2 written over A, read again, written (in-place update)")
    cl = classify(a_text)
    kinds = set()
    for items in cl[1].values():
        for it in items:
            kinds.add(it[0] if it[0] != "content" else ("content+comment" if it[2] else "content"))
    n_sec_lines = len(re.findall(r"^\s*\[.*\]", a_text, flags=re.M))
    if n_sec_lines > len(cl[2]):
        ctx.probe("repeated_section_name")
    if len(re.findall(r"^\s*\[\s*moleculetype\s*\]", a_text, flags=re.M)) > 1:
        ctx.probe("second_molecule_definition")
    if re.search(r"^[^;\n#]*\S[^;\n]*;\s*$", a_text, flags=re.M):
        ctx.probe("empty_trailing_comment")
    if re.search(r"^;\s*#", a_text, flags=re.M):
        ctx.probe("commented_preprocessor")
    if re.search(r"^[^;\n]*;[^;\n]*;", a_text, flags=re.M):
        ctx.probe("multiple_trailing_comments")
    ok1 = compare_files(ctx, P, texts["A"], texts["B"], "A->B")
    ok2 = compare_files(ctx, P, texts["B"], texts["C"], "B->C (stability)")
    for x, y in (("A", "B"), ("B", "C")):
        ta, tb = tops[x], tops[y]
        if ta[0] != tb[0] or [tuple(a) for a in ta[1]] != [tuple(a) for a in tb[1]] or \
                [tuple(b) for b in ta[2]] != [tuple(b) for b in tb[2]]:
            ctx.violate(P, "topology-differs", f"read_topology({x}) != read_topology({y}): name {ta[0]!r}/{tb[0]!r}, "
                                               f"{len(ta[1])}/{len(tb[1])} atoms, {len(ta[2])}/{len(tb[2])} bonds")
    if "ops" in trace:
        truth = truth_from_ops(trace["ops"])
        got_edges = {frozenset(b) for b in tops["A"][2]}
        if tops["A"][0] != truth["name"] or [tuple(a) for a in tops["A"][1]] != truth["atoms"] or got_edges != truth["edges"]:
            # the first parse already lost something: what C16 says the comparison of parsed objects cannot see
            ctx.violate(P, "first-read-differs", "the first read of the file does not return the file's name/atoms/bonds")
    ctx.op("history", "ok" if ok1 and ok2 else "diff")
    ctx.sig.append(tuple(sorted(kinds)) + (len(cl[2]),))


def _same_length_variant(text):
    """The same topology with one atom name changed to another name of the same length (first [ atoms ] content line)."""
    lines = text.split("\n")
    sec = None
    for i, l in enumerate(lines):
        st = l.strip()
        if st.startswith("[") and "]" in st:
            sec = st[1:st.rindex("]")].strip()
            continue
        if sec == "atoms" and st and not st.startswith(";") and not st.startswith("#"):
            content = l.split(";")[0]
            toks = content.split()
            if len(toks) >= 5:
                name = toks[4]
                new = ("Z" if name[0] != "Z" else "Y") + name[1:]
                # replace the 5th token in place (same length)
                pos = 0
                for k in range(5):
                    pos = content.index(toks[k], pos)
                    if k < 4:
                        pos += len(toks[k])
                lines[i] = l[:pos] + new + l[pos + len(name):]
                return "\n".join(lines)
    return None


def _read_image(seam, path):
    """Content of a written file as recorded by the file seam (falls back to the disk)."""
    fid = seam.fid_of(path, "w")
    if fid is None:
        raise HarnessError("write of %s bypassed the file seam" % path)
    from sim.seams import image_after
    ops = seam.ops_of(fid)
    img = image_after(ops, len(ops)).decode()
    with open(path) as f:
        disk = f.read()
    if disk != img:
        raise HarnessError("file seam image differs from disk for " + path)
    return img
