"""Engine `cli` (C20): the command-line tool against the library workflow, and discovery under
scheduler-chosen set-iteration and file-list orders.

Modes:
 * equiv     -- gaddlemaps._cli.main() in-process (patched sys.argv) under the random seam vs. the
                library workflow with the same seed: byte-identical output, equal random-seam digests.
 * discover  -- sort_molecules / main --auto with the candidate list in a scheduler-chosen order and
                classify_files returning sets whose ITERATION ORDER the scheduler chooses (every order
                is reachable, not only those some hash seed produces); explicit and excluded subsets.
 * process   -- the unmodified CLI in real subprocesses under different PYTHONHASHSEED values and
                shuffled --auto lists (cross-check that the set seam is faithful)."""
import hashlib
import os
import re
import shutil
import subprocess
import sys

import numpy as np

from sim import gen, world as W
from sim.core import REPO, HarnessError
from sim.seams import RandomSeam, patched

NAME = "cli"
P = "C20"
USES_INDEX = True
NONDETERMINISM_IS_VIOLATION = ("C20",)


class Sink:
    """Minimal event sink for a RandomSeam (own digest, no side effects on the run's log)."""

    def __init__(self):
        self.h = hashlib.sha256()
        self.n = 0
        self.steps = 0

    def ev(self, *items):
        from sim.core import _canon
        self.h.update(repr(_canon(items)).encode())
        self.n += 1

    def digest(self):
        return self.h.hexdigest()


class PermSet(set):
    """A set whose iteration order is chosen by the scheduler."""

    def __init__(self, items, order_key):
        super().__init__(items)
        self._key = order_key

    def __iter__(self):
        return iter(sorted(set.__iter__(self), key=self._key))


def generate(rng, tier, focus, k=None):
    n_proc = 6 if tier == "quick" else 96
    if k is not None and k < n_proc:
        mode = "process"
    else:
        mode = "equiv" if rng.random() < 0.35 else "discover"
    if mode == "discover" and rng.random() < 0.02:
        # automatic discovery over the WHOLE shipped data directory (topologies and coordinates of other systems, emptied
        # files, several resolutions of the same molecules) for the shipped BMIM/BF4 box
        return {"mode": "auto_shipped", "scale": rng.choice([0.5, 1.0, round(rng.uniform(0.1, 1.5), 3)]),
                "np_seed": rng.randrange(2 ** 32), "list_seed": rng.randrange(2 ** 31), "set_seed": rng.randrange(2 ** 31),
                "steps_factor": 1, "exclude": rng.choice([[], [], ["BF4"], ["BMIM"]]), "out": rng.choice(["abs", "rel", "default"])}
    if mode == "equiv" and rng.random() < (0.05 if tier == "quick" else 0.03):
        return {"mode": "equiv_shipped", "scale": rng.choice([0.5, 1.0, round(rng.uniform(0.1, 1.5), 3)]),
                "np_seed": rng.randrange(2 ** 32), "order": rng.sample([0, 1], 2), "outfile": rng.random() < 0.5, "steps_factor": 1}
    world = W.gen_world(rng, tier, min_species=1 if mode == "equiv" else 2, max_species=3 if mode != "discover" else 4,
                        max_mol=8 if tier == "quick" else 20)
    n_sp = len(world["species"])
    tr = {"mode": mode, "world": world, "scale": rng.choice([0.5, 1.0, round(rng.uniform(0.05, 2.0), 4)]),
          "np_seed": rng.randrange(2 ** 32), "steps_factor": rng.randint(1, 2)}
    if mode == "equiv":
        tr["order"] = rng.sample(range(n_sp), rng.randint(1, n_sp))
        tr["outfile"] = rng.random() < 0.5
        tr["scale_given"] = rng.random() < 0.8
        tr["relative"] = rng.choice([None, None, "cwd", "subdir"])
        tr["itp_style"] = rng.choice([0, 0, 1, 2, 3, 4, 5])
        tr["end_renamed"] = rng.random() < 0.2
        return tr
    # discovery: which species are complete among the candidates, which are explicit, which excluded
    status = {}
    for s in range(n_sp):
        c = rng.random()
        status[str(s)] = ("complete" if c < 0.6 else "explicit" if c < 0.75 else "no_end_files" if c < 0.85 else
                          "no_end_gro" if c < 0.92 else "no_end_top")
    if not any(v in ("complete", "explicit") for v in status.values()):
        status["0"] = "complete"
    tr["status"] = status
    tr["exclude"] = [s for s in range(n_sp) if status[str(s)] == "complete" and rng.random() < 0.25]
    tr["exclude_bogus"] = rng.random() < 0.2
    tr["distractors"] = {"txt": rng.random() < 0.5, "absent_species": rng.random() < 0.5, "system_in_list": rng.random() < 0.5,
                         "start_coordinates": rng.random() < 0.5,
                         "near_miss": rng.random() < 0.4, "previous_output": rng.random() < 0.35, "dotted_names": rng.random() < 0.3,
                         "itp_style": rng.choice([0, 0, 1, 2, 3, 4, 5]), "other_spelling": rng.random() < 0.5,
                         "per_species_dirs": rng.random() < 0.2}
    tr["auto_out"] = rng.choice(["abs", "abs", "rel", "default"])
    tr["list_seed"] = rng.randrange(2 ** 31)
    tr["set_seeds"] = [rng.randrange(2 ** 31) for _ in range(3)]
    tr["hashseeds"] = [rng.randrange(1, 4000) for _ in range(2)]
    return tr


def abbreviate(trace):
    t = {k: v for k, v in trace.items() if k not in ("world",)}
    if "world" in trace:
        t["species"] = [{"name": s["name"], "n_start": len(s["start"]["positions"]), "n_end": len(s["end"]["positions"])}
                        for s in trace["world"]["species"]]
        t["n_molecules"] = len(trace["world"]["instances"])
    return t


OPS_REMOVABLE = False


def run_main(argv, np_seed, steps_factor, sink, extra_patches=(), cwd=None):
    """gaddlemaps._cli.main() in-process with patched sys.argv under a random seam; returns captured stdout.
    The working directory is the run's scratch directory (a tool that writes relative to the cwd must not litter)."""
    import io
    import contextlib
    import gaddlemaps._cli as C
    from gaddlemaps import Alignment
    old_argv = sys.argv
    old_sf = Alignment.STEPS_FACTOR
    buf = io.StringIO()
    seam = RandomSeam(sink, np_seed)
    old_cwd = os.getcwd()
    try:
        if cwd is not None:
            os.chdir(cwd)
        sys.argv = ["gaddlemaps"] + list(argv)
        Alignment.STEPS_FACTOR = steps_factor
        with seam, contextlib.redirect_stdout(buf), contextlib.ExitStack() as st:
            for mod, name, val in extra_patches:
                st.enter_context(patched(mod, name, val))
            C.main()
    finally:
        os.chdir(old_cwd)
        sys.argv = old_argv
        Alignment.STEPS_FACTOR = old_sf
    return buf.getvalue()


def recording_auto_map(store):
    """A pass-through replacement for gaddlemaps._cli.auto_map that notes the species list the tool decided on."""
    import gaddlemaps._cli as C
    real = C.auto_map

    def auto_map(refrence_coordinates, species, *a, **kw):
        store["species"] = [list(map(str, t)) for t in species]
        return real(refrence_coordinates, species, *a, **kw)
    return (C, "auto_map", auto_map)


def added_order(stdout, store, explicit, expected):
    """Names of the discovered species in the order the tool handed them to the mapping step: from the recorded call if the
    tool made one, otherwise from what it printed; None if neither tells."""
    if store.get("species") is not None:
        expl = {tuple(os.path.realpath(x) for x in t) for t in explicit}
        by_top = {os.path.realpath(v["top_CG"]): n for n, v in expected.items()}
        names = []
        for t in store["species"]:
            if tuple(os.path.realpath(x) for x in t) in expl:
                continue
            names.append(by_top.get(os.path.realpath(t[0]), "?" + os.path.basename(t[0])))
        return names, {by_top.get(os.path.realpath(t[0]), "?" + os.path.basename(t[0])): tuple(os.path.realpath(x) for x in t)
                       for t in store["species"] if tuple(os.path.realpath(x) for x in t) not in expl}
    found = [m.group(1) for m in re.finditer(r"The molecue (\S+) has been added", stdout)]
    if found or "has been added" in stdout:
        return found, None
    return None, None


def run_library(system, triples, scale, out, np_seed, steps_factor, sink):
    import io
    import contextlib
    from gaddlemaps import Manager, Alignment
    from gaddlemaps.components import Molecule
    old_sf = Alignment.STEPS_FACTOR
    buf = io.StringIO()
    try:
        Alignment.STEPS_FACTOR = steps_factor
        with RandomSeam(sink, np_seed), contextlib.redirect_stdout(buf):
            manager = Manager.from_files(system, *[t[0] for t in triples])
            from gaddlemaps.components import MoleculeTop
            for t in triples:
                # the documented attribute route: the end molecule is given to the species of the START topology of its
                # triple, whatever name the end topology carries (the same as add_end_molecule when the names agree)
                manager.molecule_correspondence[MoleculeTop(t[0]).name].end = Molecule.from_files(t[1], t[2])
            manager.align_molecules()
            manager.calculate_exchange_maps(scale_factor=scale)
            manager.extrapolate_system(out)
    finally:
        Alignment.STEPS_FACTOR = old_sf


def execute(trace, ctx):
    mode = trace["mode"]
    if mode == "equiv":
        return exec_equiv(trace, ctx)
    if mode == "equiv_shipped":
        return exec_equiv_shipped(trace, ctx)
    if mode == "discover":
        return exec_discover(trace, ctx)
    if mode == "auto_shipped":
        return exec_auto_shipped(trace, ctx)
    return exec_process(trace, ctx)


def _compare_outputs(ctx, cli_out, lib_out, d1, d2, label):
    if not os.path.exists(cli_out):
        ctx.violate(P, "cli-output-missing", f"{label}: the command-line run did not write {os.path.basename(cli_out)}")
        return
    a = open(cli_out, "rb").read()
    b = open(lib_out, "rb").read()
    if a != b:
        la, lb = a.split(b"\n"), b.split(b"\n")
        k = next((i for i, (x, y) in enumerate(zip(la, lb)) if x != y), min(len(la), len(lb)))
        ctx.violate(P, "cli-differs-from-library", f"{label}: output differs from the library workflow's at line {k}: "
                                                   f"{la[k][:60] if k < len(la) else None!r} vs {lb[k][:60] if k < len(lb) else None!r}")
    elif d1 != d2:
        ctx.probe("same_output_other_random_stream")     # (the statement speaks about the output file only)


def exec_equiv(trace, ctx):
    world = trace["world"]
    d = ctx.tmpdir()
    relative = trace.get("relative")
    wd = os.path.join(d, "w") if relative == "subdir" else d        # where the files live; the tool's cwd is always d
    os.makedirs(wd, exist_ok=True)
    if trace.get("end_renamed"):
        # the end topologies carry OTHER molecule names than the start topologies (lower case, or a tool's generic "MOL"):
        # a triple is held together by being one triple, not by the names inside its files
        import copy as _copy
        world = _copy.deepcopy(world)
        for k_, sp_ in enumerate(world["species"]):
            sp_["end"]["name"] = sp_["name"].lower() if trace["np_seed"] % 2 else "MOL"
        ctx.probe("end_topologies_named_differently")
    paths = W.write_world(wd, world, itp_style=int(trace.get("itp_style") or 0))
    triples = [(paths["species"][s]["top_start"], paths["species"][s]["gro_end"], paths["species"][s]["top_end"])
               for s in trace["order"]]
    as_arg = (lambda p_: os.path.relpath(p_, d)) if relative else (lambda p_: p_)
    sys_arg = paths["system"]
    via_link = (not relative) and (not trace["outfile"]) and trace["np_seed"] % 3 == 0
    if via_link:
        # the input is given as a symbolic link that lives in another directory and has another name than its target:
        # "mapped_<input name> beside the input" speaks about the path the user gave
        os.makedirs(os.path.join(d, "run"), exist_ok=True)
        sys_arg = os.path.join(d, "run", "current.gro")
        os.symlink(paths["system"], sys_arg)
        ctx.probe("input_through_a_symbolic_link")
    argv = [as_arg(sys_arg)]
    for t in triples:
        argv += ["--mol", *[as_arg(x) for x in t]]
    scale = trace["scale"] if trace["scale_given"] else 0.5
    if trace["scale_given"]:
        argv += ["--scale", repr(trace["scale"])]
    if trace["outfile"]:
        cli_out = os.path.join(d, "cli_result.gro")
        argv += ["-o", as_arg(cli_out)]
    elif via_link:
        cli_out = os.path.join(d, "run", "mapped_current.gro")
    else:
        cli_out = os.path.join(wd, "mapped_system.gro")           # beside the input, wherever the cwd is
    if relative:
        ctx.probe("relative_paths_" + relative)
    s1, s2 = Sink(), Sink()
    try:
        run_main(argv, trace["np_seed"], trace["steps_factor"], s1, cwd=d)
    except SystemExit as e:
        ctx.violate(P, "cli-exit", f"the command-line run exited with {e.code}")
        return
    except Exception as e:
        ctx.op("equiv", "cli-raised")
        # "equals the library workflow": a world both refuse is not a difference
        try:
            run_library(paths["system"], triples, scale, os.path.join(d, "lib_result.gro"), trace["np_seed"], trace["steps_factor"], s2)
        except Exception as e2:
            if type(e2) is type(e):
                ctx.probe("both_workflows_refuse")
                return
        ctx.violate(P, "cli-raised", f"the command-line run raised {type(e).__name__}: {e}", key=type(e).__name__)
        return
    lib_out = os.path.join(d, "lib_result.gro")
    try:
        run_library(paths["system"], triples, scale, lib_out, trace["np_seed"], trace["steps_factor"], s2)
    except Exception as e:
        ctx.op("equiv", "library-raised")
        ctx.violate(P, "library-raised", f"the library workflow raised {type(e).__name__}: {e}", key=type(e).__name__)
        return
    ctx.steps += s1.n + s2.n
    ctx.ev("cli-digest", s1.digest())
    _compare_outputs(ctx, cli_out, lib_out, s1.digest(), s2.digest(), "generated world")
    if not trace["outfile"]:
        ctx.probe("default_output_name")
    extra = [os.path.join(r, f) for r, _, fs in os.walk(d) for f in fs
             if f.startswith("mapped_") and os.path.join(r, f) != cli_out]
    if extra:
        ctx.violate(P, "default-output-name", f"unexpected output files {extra} (requested output: {os.path.basename(cli_out)})")
    if relative == "cwd" and len(world["species"]) >= 2 and len(trace["order"]) == len(world["species"]) and trace["np_seed"] % 2 == 0:
        _second_run_same_names(trace, ctx, world, d, scale)
    ctx.nontrivial = True
    ctx.op("equiv", f"{len(triples)}sp")
    ctx.sig.append((tuple(trace["order"]), trace["outfile"], trace["scale_given"], len(world["instances"]),
                    tuple(len(s["start"]["positions"]) for s in world["species"])))


def _second_run_same_names(trace, ctx, world, d, scale):
    """The tool is run a SECOND time in the same process, in another directory whose files carry the same names -- but the
    names of the first two species' files are swapped (another project that happens to use the same file names).  The same
    relative path strings now denote other molecules; the output must again equal the library workflow's."""
    d2 = os.path.join(d, "second")
    os.makedirs(d2, exist_ok=True)
    paths = W.write_world(d2, world, itp_style=int(trace.get("itp_style") or 0))
    a_, b_ = paths["species"][0], paths["species"][1]
    for key in ("top_start", "gro_end", "top_end"):
        tmp_ = a_[key] + ".swap"
        os.rename(a_[key], tmp_)
        os.rename(b_[key], a_[key])
        os.rename(tmp_, b_[key])
    # (species 0's molecule now lives in the files NAMED after species 1 and vice versa)
    by_species = {0: b_, 1: a_}
    for k_ in range(2, len(paths["species"])):
        by_species[k_] = paths["species"][k_]
    triples = [(by_species[s_]["top_start"], by_species[s_]["gro_end"], by_species[s_]["top_end"]) for s_ in trace["order"]]
    rel = lambda p_: os.path.relpath(p_, d2)
    argv = [rel(paths["system"])]
    for t in triples:
        argv += ["--mol", *[rel(x) for x in t]]
    argv += ["--scale", repr(scale), "-o", "second_cli.gro"]
    s1, s2 = Sink(), Sink()
    try:
        run_main(argv, trace["np_seed"], trace["steps_factor"], s1, cwd=d2)
        run_library(paths["system"], triples, scale, os.path.join(d2, "second_lib.gro"), trace["np_seed"], trace["steps_factor"], s2)
    except (SystemExit, Exception) as e:
        ctx.violate(P, "cli-raised", f"second run in the same process (same relative file names, other contents) raised "
                                     f"{type(e).__name__}: {e}", key="second-run")
        return
    _compare_outputs(ctx, os.path.join(d2, "second_cli.gro"), os.path.join(d2, "second_lib.gro"), s1.digest(), s2.digest(),
                     "second run in the same process, same relative names")
    ctx.probe("second_run_same_relative_names")


def exec_equiv_shipped(trace, ctx):
    import gaddlemaps
    D = gaddlemaps.DATA_FILES_PATH
    d = ctx.tmpdir()
    system = os.path.join(d, "box.gro")
    shutil.copy(D["system_bmimbf4_cg.gro"], system)
    both = [(D["BMIM_CG.itp"], D["BMIM_AA.gro"], D["BMIM_AA.itp"]), (D["BF4_CG.itp"], D["BF4_AA.gro"], D["BF4_AA.itp"])]
    triples = [both[i] for i in trace["order"]]
    argv = [system]
    for t in triples:
        argv += ["-m", *t]
    argv += ["--scale", repr(trace["scale"])]
    cli_out = os.path.join(d, "o.gro") if trace["outfile"] else os.path.join(d, "mapped_box.gro")
    if trace["outfile"]:
        argv += ["--outfile", cli_out]
    s1, s2 = Sink(), Sink()
    try:
        run_main(argv, trace["np_seed"], trace["steps_factor"], s1, cwd=d)
        lib_out = os.path.join(d, "lib.gro")
        run_library(system, triples, trace["scale"], lib_out, trace["np_seed"], trace["steps_factor"], s2)
    except Exception as e:
        ctx.violate(P, "cli-raised", f"shipped BMIM/BF4 run raised {type(e).__name__}: {e}", key=type(e).__name__)
        return
    ctx.steps += s1.n + s2.n
    _compare_outputs(ctx, cli_out, lib_out, s1.digest(), s2.digest(), "shipped BMIM/BF4 box")
    ctx.probe("shipped_box")
    ctx.nontrivial = True
    ctx.op("equiv_shipped", "ok")


def exec_auto_shipped(trace, ctx):
    """--auto over every shipped data file for the shipped BMIM/BF4 box: exactly BMIM and BF4 are found, each with its own
    three files, whatever the list and set orders; the output is the library workflow's."""
    import random as _r
    import gaddlemaps
    import gaddlemaps._cli as C
    D = gaddlemaps.DATA_FILES_PATH
    d = ctx.tmpdir()
    system = os.path.join(d, "box.gro")
    shutil.copy(D["system_bmimbf4_cg.gro"], system)
    files = sorted(set(D.values()))
    lr = _r.Random(trace["list_seed"])
    lr.shuffle(files)
    expected = {"BMIM": {"top_CG": D["BMIM_CG.itp"], "coor_AA": D["BMIM_AA.gro"], "top_AA": D["BMIM_AA.itp"]},
                "BF4": {"top_CG": D["BF4_CG.itp"], "coor_AA": D["BF4_AA.gro"], "top_AA": D["BF4_AA.itp"]}}
    excluded = list(trace.get("exclude") or [])
    argv = [system, "--auto", *files, "--scale", repr(trace["scale"])]
    if excluded:
        argv += ["--exclude", *excluded]
    if trace["out"] == "default":
        out = os.path.join(d, "mapped_box.gro")
    else:
        out = os.path.join(d, "res.gro")
        argv += ["-o", out if trace["out"] == "abs" else "res.gro"]
    real_classify = C.classify_files
    sr = _r.Random(trace["set_seed"])
    rank = {}

    def key(x):
        if x not in rank:
            rank[x] = sr.random()
        return rank[x]

    def classify(fs):
        t, c = real_classify(fs)
        ctx.fault("set_iteration_order_permuted")
        return PermSet(t, key), PermSet(c, key)
    store = {}
    sink = Sink()
    try:
        stdout = run_main(argv, trace["np_seed"], trace["steps_factor"], sink,
                          extra_patches=[(C, "classify_files", classify), recording_auto_map(store)], cwd=d)
    except (SystemExit, Exception) as e:
        ctx.violate(P, "cli-raised", f"--auto over the shipped data files raised {type(e).__name__}: {e}", key=type(e).__name__)
        return
    ctx.steps += sink.n
    ctx.probe("auto_over_shipped_data_directory")
    order_added, handed = added_order(stdout, store, [], expected)
    want = sorted(n for n in expected if n not in excluded)
    if order_added is None:
        ctx.probe("auto_species_order_not_observable")
    elif sorted(order_added) != want:
        ctx.violate(P, "auto-reported-species", f"shipped data files: --auto handed on {order_added}, expected {want}")
        return
    elif handed is not None:
        for n in order_added:
            w_ = tuple(os.path.realpath(expected[n][k]) for k in ("top_CG", "coor_AA", "top_AA"))
            if handed[n] != w_:
                ctx.violate(P, "discovery-assignment", f"shipped data files: species {n} handed on with "
                                                       f"{[os.path.basename(x) for x in handed[n]]}", key="assignment")
                return
    if not os.path.exists(out):
        ctx.violate(P, "cli-output-missing", f"shipped data files: no output at {os.path.relpath(out, d)}")
        return
    if order_added is not None:
        lib_out = os.path.join(d, "lib.gro")
        s2 = Sink()
        run_library(system, [(expected[n]["top_CG"], expected[n]["coor_AA"], expected[n]["top_AA"]) for n in order_added],
                    trace["scale"], lib_out, trace["np_seed"], trace["steps_factor"], s2)
        _compare_outputs(ctx, out, lib_out, sink.digest(), s2.digest(), "--auto over the shipped data files")
    ctx.nontrivial = True
    ctx.op("auto_shipped", f"{len(want)}sp")


# --------------------------------------------------------------------------
# discovery
# --------------------------------------------------------------------------

def build_candidates(trace, d, allow_dirs=False):
    world = trace["world"]
    paths = W.write_world(d, world, dotted=bool(trace["distractors"].get("dotted_names")),
                          itp_style=int(trace["distractors"].get("itp_style") or 0))
    if allow_dirs and trace["distractors"].get("per_species_dirs"):
        # one directory per species, the SAME three file names in each (cg.itp, aa.gro, aa.itp): files are told apart by their
        # paths, not by their base names
        for k_, p_ in enumerate(paths["species"]):
            sub = os.path.join(d, "sp%d" % k_)
            os.makedirs(sub, exist_ok=True)
            for key, fn in (("top_start", "cg.itp"), ("gro_end", "aa.gro"), ("top_end", "aa.itp")):
                q = os.path.join(sub, fn)
                os.replace(p_[key], q)
                p_[key] = q
    status = trace["status"]
    cands = []
    explicit = []
    expected = {}
    for s, sp in enumerate(world["species"]):
        st = status[str(s)]
        p = paths["species"][s]
        if st == "explicit":
            explicit.append([p["top_start"], p["gro_end"], p["top_end"]])
            if s % 2 == 0:
                # listed as well: must not be re-added -- also when the list spells the same files differently ("dir/./file")
                listed = [p["top_start"], p["gro_end"], p["top_end"]]
                if trace["distractors"].get("other_spelling"):
                    listed = [os.path.join(os.path.dirname(x), ".", os.path.basename(x)) for x in listed]
                cands += listed
            continue
        cands.append(p["top_start"])
        if st == "complete":
            cands += [p["gro_end"], p["top_end"]]
            expected[sp["name"]] = {"top_CG": p["top_start"], "coor_AA": p["gro_end"], "top_AA": p["top_end"]}
        elif st == "no_end_gro":
            cands.append(p["top_end"])
        elif st == "no_end_top":
            cands.append(p["gro_end"])
    dis = trace["distractors"]
    if dis["txt"]:
        for name in ("notes.txt", "README", "run.mdp", "topol.top"):
            q = os.path.join(d, name)
            with open(q, "w") as f:
                f.write("; not a molecule file\n")
            cands.append(q)
    if dis["absent_species"]:
        import random as _r
        r2 = _r.Random(trace["list_seed"])
        ghost = W.gen_world(r2, "quick", min_species=1, max_species=1, max_mol=2)["species"][0]
        ghost["start"]["name"] = ghost["end"]["name"] = "GHOST"
        # residue kinds that cannot collide with the world's
        for key in ("start", "end"):
            ghost[key]["resnames"] = ["Z" + rn[1:] for rn in ghost[key]["resnames"]]
        for key, fn in (("start", "GHOST_CG.itp"), ("end", "GHOST_AA.itp")):
            q = os.path.join(d, fn)
            with open(q, "w") as f:
                f.write(gen.itp_text(ghost[key]))
            cands.append(q)
        q = os.path.join(d, "GHOST_AA.gro")
        with open(q, "w") as f:
            f.write(W.end_gro_text(ghost["end"]))
        cands.append(q)
    if dis.get("near_miss"):
        # a topology of ANOTHER molecule whose residue signature (name, atom count) exists in the system but whose atom
        # names do not match: the system must refuse it and be none the worse for having been asked
        k = trace["list_seed"] % len(world["species"])
        nm = dict(world["species"][k]["start"])
        nm["name"] = "NEARMISS"
        nm["atom_names"] = ["Q" + a[:3] for a in nm["atom_names"]]
        q = os.path.join(d, "NEARMISS_CG.itp")
        with open(q, "w") as f:
            f.write(gen.itp_text(nm))
        cands.append(q)
    if dis.get("previous_output"):
        # what an earlier run left in the directory (and `--auto *` picks up): a coordinate file holding SEVERAL molecules in
        # the final resolution -- it contains each species' end molecule, but it is nobody's end coordinate file
        lines, atomid, resid = [], 1, 1
        for rep_ in range(2):
            for sp in world["species"]:
                e = sp["end"]
                ls, nres = gen.gro_atom_lines(e, gen.round3((np.array(e["positions"]) + 0.7 * rep_).tolist()), resid, atomid)
                lines += ls
                atomid += len(e["positions"])
                resid += nres
        q = os.path.join(d, "earlier_output.gro")
        with open(q, "w") as f:
            f.write(gen.gro_text("output of an earlier run", lines, [9.0, 9.0, 9.0]))
        cands.append(q)
    if dis["system_in_list"]:
        cands.append(paths["system"])
    if dis["start_coordinates"]:
        sp = world["species"][0]["start"]
        q = os.path.join(d, "single_CG.gro")
        ls, _ = gen.gro_atom_lines(sp, gen.round3(sp["positions"]), 1, 1)
        with open(q, "w") as f:
            f.write(gen.gro_text("one start-resolution molecule", ls, [4.0, 4.0, 4.0]))
        cands.append(q)
    return paths, cands, explicit, expected


def exec_discover(trace, ctx):
    import random as _r
    import gaddlemaps._cli as C
    world = trace["world"]
    d = ctx.tmpdir()
    paths, cands, explicit, expected = build_candidates(trace, d, allow_dirs=True)
    if trace["distractors"].get("per_species_dirs"):
        ctx.probe("one_directory_per_species_same_file_names")
    lr = _r.Random(trace["list_seed"])
    real_classify = C.classify_files
    results = []
    for si, set_seed in enumerate(trace["set_seeds"]):
        order = list(cands)
        lr.shuffle(order)
        sr = _r.Random(set_seed)
        rank = {}

        def key(x, rank=rank, sr=sr):
            if x not in rank:
                rank[x] = sr.random()
            return rank[x]

        def classify(files, key=key):
            t, c = real_classify(files)
            ctx.fault("set_iteration_order_permuted")
            return PermSet(t, key), PermSet(c, key)

        expl = [list(t) for t in explicit]
        lr.shuffle(expl)
        try:
            with patched(C, "classify_files", classify):
                got = C.sort_molecules(paths["system"], order, expl)
        except Exception as e:
            import traceback
            ctx.op("sort_molecules", "raised")
            ctx.violate(P, "discovery-raised", f"sort_molecules raised {type(e).__name__}: {e} (status {trace['status']})\n"
                                               f"{traceback.format_exc()[-500:]}", key=type(e).__name__)
            return
        ctx.steps += 1
        complete = {n: dict(v) for n, v in got.items() if len(v) == 3}
        if complete != expected:
            ctx.violate(P, "discovery-assignment", f"order #{si}: discovered {_short(complete)}, expected {_short(expected)}",
                        key="assignment")
            return
        for n, v in got.items():
            if any(os.path.realpath(f) in {os.path.realpath(x) for t in explicit for x in t} for f in v.values()):
                ctx.violate(P, "explicit-species-readded", f"order #{si}: species {n} given explicitly was re-added: {_short({n: v})}")
                return
        results.append({n: dict(v) for n, v in got.items()})
    if any(r != results[0] for r in results[1:]):
        ctx.violate(P, "discovery-order-dependent", f"sort_molecules returned different mappings for different list / set "
                                                    f"iteration orders: {_short(results[0])} vs {_short(next(r for r in results if r != results[0]))}")
        return
    ctx.op("sort_molecules", f"{len(expected)}of{len(world['species'])}")
    if any(v in ("no_end_files", "no_end_gro", "no_end_top") for v in trace["status"].values()):
        ctx.probe("incomplete_species_among_candidates")
    # main(): exactly the complete, non-excluded (and the explicit) species are mapped
    names = [sp["name"] for sp in world["species"]]
    excluded = [names[s] for s in trace["exclude"]]
    argv = [paths["system"]]
    for t in explicit:
        argv += ["--mol", *t]
    order = list(cands)
    lr.shuffle(order)
    argv += ["--auto", *order]
    if excluded or trace["exclude_bogus"]:
        argv += ["--exclude", *(excluded + (["NOTHERE"] if trace["exclude_bogus"] else []))]
    how_out = trace.get("auto_out", "abs")
    if how_out == "default":
        out = os.path.join(d, "mapped_" + os.path.basename(paths["system"]))
        ctx.probe("auto_default_output_name")
    else:
        out = os.path.join(d, "auto_out.gro")
        argv += ["-o", out if how_out == "abs" else os.path.relpath(out, d)]
    argv += ["--scale", repr(trace["scale"])]
    want_species = [n for n in expected if n not in excluded] + [names[s] for s in range(len(names)) if trace["status"][str(s)] == "explicit"]
    sink = Sink()
    sr = _r.Random(trace["set_seeds"][0] + 1)
    rank = {}

    def key2(x):
        if x not in rank:
            rank[x] = sr.random()
        return rank[x]

    def classify2(files):
        t, c = real_classify(files)
        return PermSet(t, key2), PermSet(c, key2)
    if not want_species:
        ctx.nontrivial = True
        return
    store = {}
    try:
        stdout = run_main(argv, trace["np_seed"], trace["steps_factor"], sink,
                          extra_patches=[(C, "classify_files", classify2), recording_auto_map(store)], cwd=d)
    except SystemExit as e:
        ctx.violate(P, "cli-exit", f"--auto run exited with {e.code}")
        return
    except Exception as e:
        import traceback
        ctx.op("main_auto", "raised")
        ctx.violate(P, "cli-raised", f"--auto run raised {type(e).__name__}: {e}\n{traceback.format_exc()[-500:]}", key=type(e).__name__)
        return
    ctx.steps += sink.n
    mapped_names = output_species(out, world)
    if mapped_names is None:
        ctx.violate(P, "cli-output-missing", f"--auto run wrote no readable output at {os.path.relpath(out, d)}")
        return
    stray = [os.path.join(r, f) for r, _, fs in os.walk(d) for f in fs if f.startswith("mapped_") and os.path.join(r, f) != out]
    if stray:
        ctx.violate(P, "default-output-name", f"--auto run left unexpected output files {stray}")
    present = {world["species"][i["species"]]["name"] for i in world["instances"]}
    if mapped_names != (set(want_species) & present):
        ctx.violate(P, "auto-mapped-species", f"--auto mapped species {sorted(mapped_names)}; complete and not excluded: "
                                              f"{sorted(set(want_species) & present)} (excluded {excluded}, status {trace['status']})",
                    key="excluded" if mapped_names & set(excluded) else "other")
    else:
        # the --auto run equals the library workflow fed with the explicit triples followed by the discovered ones in
        # the order the tool handed them on (that order decides who consumes the random stream first)
        order_added, handed = added_order(stdout, store, explicit, expected)
        want_auto = sorted(n for n in expected if n not in excluded)
        if order_added is None:
            ctx.probe("auto_species_order_not_observable")
        elif sorted(order_added) == want_auto:
            if handed is not None:
                for n in order_added:
                    w_ = tuple(os.path.realpath(expected[n][k]) for k in ("top_CG", "coor_AA", "top_AA"))
                    if handed[n] != w_:
                        ctx.violate(P, "discovery-assignment", f"--auto handed species {n} to the mapping step with files "
                                                               f"{[os.path.basename(x) for x in handed[n]]}, its files are "
                                                               f"{[os.path.basename(x) for x in w_]}", key="assignment")
                        return
            triples = [tuple(t) for t in explicit] + [(expected[n]["top_CG"], expected[n]["coor_AA"], expected[n]["top_AA"])
                                                      for n in order_added]
            s2 = Sink()
            lib_out = os.path.join(d, "auto_lib.gro")
            try:
                run_library(paths["system"], triples, trace["scale"], lib_out, trace["np_seed"], trace["steps_factor"], s2)
            except Exception as e:
                ctx.violate(P, "library-raised", f"the library workflow raised {type(e).__name__}: {e}", key=type(e).__name__)
                return
            ctx.steps += s2.n
            _compare_outputs(ctx, out, lib_out, sink.digest(), s2.digest(), "--auto run")
            ctx.probe("auto_run_compared_with_library")
        else:
            ctx.violate(P, "auto-reported-species", f"--auto handed on {order_added}; complete and not excluded: {want_auto}")
    if excluded:
        ctx.probe("excluded_species")
    if explicit:
        ctx.probe("explicit_plus_auto")
    ctx.nontrivial = True
    ctx.op("main_auto", f"{len(mapped_names)}mapped")
    ctx.sig.append((tuple(sorted(trace["status"].items())), tuple(trace["exclude"]), tuple(sorted(trace["distractors"].items()))))


def _short(m):
    return {n: {k: os.path.basename(f) for k, f in sorted(v.items())} for n, v in sorted(m.items())}


def output_species(out, world):
    """Which species appear in a mapped output (by the end-resolution residue names)."""
    if not os.path.exists(out):
        return None
    text = open(out).read().split("\n")
    try:
        n = int(text[1])
    except Exception:
        return None
    resnames = {l[5:10].strip() for l in text[2:2 + n]}
    found = set()
    for sp in world["species"]:
        if set(sp["end"]["resnames"]) & resnames:
            found.add(sp["name"])
    return found


# --------------------------------------------------------------------------
# real processes under different hash seeds
# --------------------------------------------------------------------------

def exec_process(trace, ctx):
    import random as _r
    world = trace["world"]
    d = ctx.tmpdir()
    paths, cands, explicit, expected = build_candidates(trace, d)
    lr = _r.Random(trace["list_seed"])
    names = [sp["name"] for sp in world["species"]]
    excluded = [names[s] for s in trace["exclude"]]
    # relative paths + cwd: the strings the tool hashes must not contain the (random) scratch directory name,
    # otherwise the set iteration order under a given PYTHONHASHSEED would differ from execution to execution
    rel = lambda p_: os.path.relpath(p_, d)
    cands = [rel(c) for c in cands]
    explicit = [[rel(x) for x in t] for t in explicit]
    expected = {n: {k: rel(v) for k, v in m.items()} for n, m in expected.items()}
    paths = dict(paths, system=rel(paths["system"]))
    outs = []
    if not explicit and not [n for n in expected if n not in excluded]:
        ctx.op("process", "nothing-to-map")      # the tool has nothing to write: not a scenario of the property
        return
    for hi, hs in enumerate(trace["hashseeds"]):
        order = list(cands)
        lr.shuffle(order)
        argv = [paths["system"]]
        for t in explicit:
            argv += ["--mol", *t]
        argv += ["--auto", *order]
        if excluded:
            argv += ["--exclude", *excluded]
        out = f"proc{hi}.gro"
        argv += ["-o", out, "--scale", repr(trace["scale"])]
        code = ("import sys, json, numpy; from gaddlemaps import Alignment; Alignment.STEPS_FACTOR=%d; numpy.random.seed(%d); "
                "sys.argv=['gaddlemaps']+%r; import gaddlemaps._cli as C; _real = C.auto_map\n"
                "def _rec(ref, species, *a, **k):\n"
                "    json.dump([list(map(str, t)) for t in species], open('handed%d.json', 'w'))\n"
                "    return _real(ref, species, *a, **k)\n"
                "C.auto_map = _rec; C.main()" % (trace["steps_factor"], trace["np_seed"] % (2 ** 32), argv, hi))
        env = dict(os.environ, PYTHONHASHSEED=str(hs), PYTHONPATH=REPO)
        try:
            cp = subprocess.run([sys.executable, "-c", code], capture_output=True, text=True, env=env, timeout=300, cwd=d)
        except subprocess.TimeoutExpired:
            raise HarnessError("CLI subprocess timed out")
        ctx.steps += 1
        ctx.fault("real_process_hash_seed")
        if cp.returncode != 0:
            ctx.op("process", "failed")
            ctx.violate(P, "cli-process-failed", f"PYTHONHASHSEED={hs}: exit {cp.returncode}: {cp.stderr[-600:]}",
                        key="KeyError" if "KeyError" in cp.stderr else "other")
            return
        # what the tool handed to the mapping step (recorded call), or failing that what it printed
        assign = {}
        order_added = None
        hp = os.path.join(d, "handed%d.json" % hi)
        if os.path.exists(hp):
            import json as _json
            expl = {tuple(os.path.normpath(x) for x in t) for t in explicit}
            by_top = {os.path.normpath(v["top_CG"]): n for n, v in expected.items()}
            order_added = []
            for t in _json.load(open(hp)):
                tn = tuple(os.path.normpath(os.path.relpath(os.path.join(d, x), d)) for x in t)
                if tn in expl:
                    continue
                name = by_top.get(tn[0], "?" + os.path.basename(tn[0]))
                order_added.append(name)
                assign[name] = tuple(os.path.basename(x) for x in tn)
        elif "has been added" in cp.stdout or "molecules has been automatically added" in cp.stdout:
            for m in re.finditer(r"The molecue (\S+) has been added with initial topology (\S+), final coordinates (\S+) and final topology (\S+)", cp.stdout):
                assign[m.group(1)] = (os.path.basename(m.group(2)), os.path.basename(m.group(3)), os.path.basename(m.group(4)))
            order_added = [m.group(1) for m in re.finditer(r"The molecue (\S+) has been added", cp.stdout)]
        outp = os.path.join(d, out)
        outs.append((assign, order_added, open(outp, "rb").read() if os.path.exists(outp) else None))
    want = {n: (os.path.basename(v["top_CG"]), os.path.basename(v["coor_AA"]), os.path.basename(v["top_AA"]))
            for n, v in expected.items() if n not in excluded}
    for hi, (assign, order_added, data) in enumerate(outs):
        hs = trace["hashseeds"][hi]
        if data is None:
            ctx.violate(P, "cli-output-missing", f"PYTHONHASHSEED={hs}: the process exited normally but wrote no output file")
            return
        if order_added is None:
            ctx.probe("auto_species_order_not_observable")
            continue
        if assign != want:
            ctx.violate(P, "process-assignment", f"PYTHONHASHSEED={hs}: species handed to the mapping step {assign}, expected {want}")
            return
        # ... and the file it wrote is the library workflow's for the same triples in the same order, same random seed
        triples = [tuple(os.path.join(d, x) for x in t) for t in explicit] + \
                  [tuple(os.path.join(d, expected[n][k]) for k in ("top_CG", "coor_AA", "top_AA")) for n in order_added]
        lib_out = os.path.join(d, f"proc{hi}_lib.gro")
        try:
            run_library(os.path.join(d, paths["system"]), triples, trace["scale"], lib_out, trace["np_seed"] % (2 ** 32),
                        trace["steps_factor"], Sink())
        except Exception as e:
            ctx.violate(P, "library-raised", f"the library workflow raised {type(e).__name__}: {e}", key=type(e).__name__)
            return
        if open(lib_out, "rb").read() != data:
            ctx.violate(P, "cli-differs-from-library", f"PYTHONHASHSEED={hs}: the process wrote a file that differs from the library "
                                                       f"workflow's for the species it handed on ({order_added})", key="process")
            return
        ctx.probe("process_output_compared_with_library")
    if outs[0][1] is not None and outs[0][1] == outs[1][1] and outs[0][2] != outs[1][2]:
        ctx.violate(P, "process-output-differs", "two processes with different hash seeds added the species in the same order but "
                                                 "wrote different outputs")
    if outs[0][1] is not None and outs[0][1] == outs[1][1]:
        ctx.probe("same_species_order_across_hash_seeds")
    ctx.probe("real_process_runs", len(outs))
    ctx.nontrivial = True
    ctx.op("process", f"{len(want)}sp")
