"""Engine `xmap` (C01-C04, frames of C17): one ExchangeMap under a generated call history.

The system under simulation is one map, the two molecules it was built from and every
molecule it has returned.  The history interleaves calls (construction configuration, rigid
copies, deformed copies, other instances, repeats), rejected arguments and mutations of the
construction molecules / results / arguments.  After every operation the oracles of C01-C04
are evaluated; every frame the map builds is checked by an in-situ monitor (C17).  For
references of 1 or 2 atoms the frame completion comes from the random seam."""
import math

import numpy as np

from sim import gen
from sim.models import XMapModel, axis_invariants
from sim.seams import RandomSeam, patched

NAME = "xmap"


# --------------------------------------------------------------------------
# generation
# --------------------------------------------------------------------------

def _dyadic(rng, lo=-64, hi=64, q=6):
    return rng.randint(lo, hi) / float(2 ** q)


def collinear_positions(rng, n, kind):
    """n exactly collinear points: origin + k_i * dir * 2^-q with integer dir (sums are exact in binary)."""
    if kind == "axis":
        d = [0, 0, 0]
        d[rng.randrange(3)] = rng.choice([1, -1])
    elif kind == "diagonal":
        d = rng.choice([[1, 1, 0], [1, 0, 1], [0, 1, 1], [1, 1, 1], [1, -1, 0], [1, -1, 1], [-1, -1, -1]])
    else:
        while True:
            if rng.random() < 0.4:
                # inside the cone around a coordinate axis, but not on it
                d = [rng.randint(-2, 2) for _ in range(3)]
                d[rng.randrange(3)] = rng.choice([-1, 1]) * rng.randint(5, 9)
            else:
                d = [rng.randint(-5, 5) for _ in range(3)]
            if any(d):
                break
    q = rng.choice([3, 4, 5])
    origin = np.array([_dyadic(rng, q=q) for _ in range(3)])
    ks = rng.sample(range(-40, 41), n)
    return [list(map(float, origin + k * np.array(d, dtype=float) / 2 ** q * rng.choice([1]))) for k in ks], d


def gen_reference(rng, n, geometry):
    edges = gen.random_tree(rng, n)
    c = rng.random()
    if c < 0.25 and n >= 4:
        edges = gen.add_cycles(rng, n, edges, rng.randint(1, 3))
    elif c < 0.4 and n >= 5:
        # forest, but keep at least one atom with two bonds
        keep = list(edges)
        rng.shuffle(keep)
        for e in list(keep):
            trial = [x for x in keep if x != e]
            adj = gen.adjacency(n, trial)
            if any(len(a) >= 2 for a in adj) and rng.random() < 0.5:
                keep = trial
                break
        edges = keep
    adj = gen.adjacency(n, edges)
    if n >= 3 and not any(len(a) >= 2 for a in adj):
        edges = gen.random_tree(rng, n, "chain")
    names = [gen.atom_name(rng, i) for i in range(n)]
    info = {"geometry": geometry}
    if geometry == "generic":
        pos = generic_positions(rng, n, edges)
    elif geometry in ("axis", "diagonal", "intdir"):
        pos, d = collinear_positions(rng, n, geometry)
        info["direction"] = d
    elif geometry == "nearly":
        # generic, but one anchor makes a small (well-conditioned) angle with its frame neighbours: probes
        # collinearity tolerances that are too lax or not relative to the bond vectors
        pos = None
        for _ in range(60):
            cand = [list(p) for p in generic_positions(rng, n, edges)]
            adj = gen.adjacency(n, edges)
            anchors = [i for i in range(n) if len(adj[i]) >= 2]
            a = rng.choice(anchors)
            n1, n2 = sorted(adj[a])[:2]
            p0, p2 = np.array(cand[a]), np.array(cand[n2])
            e1 = (p2 - p0) / np.linalg.norm(p2 - p0)
            u = np.cross(e1, np.array(gen.unit_vec(rng)))
            if np.linalg.norm(u) < 0.1:
                continue
            u /= np.linalg.norm(u)
            theta = rng.uniform(2.5e-3, 3e-2)
            L1 = rng.uniform(0.08, 0.3)
            cand[n1] = list(map(float, p0 + L1 * (math.cos(theta) * e1 * rng.choice([-1, 1]) + math.sin(theta) * u)))
            if _well_separated(cand) and _anchors_generic(cand, edges, n, 2e-3):
                pos = cand
                info["near_collinear_angle"] = theta
                break
        if pos is None:
            pos = generic_positions(rng, n, edges)
            info["geometry"] = "generic"
    elif geometry == "band":
        # one anchor NEARLY collinear with its frame neighbours, at any angle between rounding noise and the well-conditioned
        # range (1e-12 .. 2e-3 rad): the frame is orthonormal there too, only the direction of its normal is ill-conditioned
        pos = None
        for _ in range(60):
            cand = band_conformation(rng, generic_positions(rng, n, edges), edges, n)
            if cand is not None:
                pos, info["near_collinear_angle"] = cand
                break
        if pos is None:
            pos = generic_positions(rng, n, edges)
            info["geometry"] = "generic"
    elif geometry == "grid":
        # NOT collinear, but aligned with the coordinate axes: lattice points (spacing 1/8 nm), often all in one coordinate
        # plane; bonds run along axes and face diagonals, normals are exactly +-x, +-y or +-z
        pos = None
        for _ in range(80):
            planar = rng.random() < 0.5
            fixed_axis = rng.randrange(3)
            fixed_val = rng.randint(-8, 8)
            pts = set()
            while len(pts) < n:
                c = [rng.randint(-6, 6) for _ in range(3)]
                if planar:
                    c[fixed_axis] = fixed_val
                pts.add(tuple(c))
            cand = [[x / 8.0 for x in c] for c in sorted(pts)]
            rng.shuffle(cand)
            if _anchors_ok(cand, edges, n):
                pos = cand
                info["planar"] = planar
                break
        if pos is None:
            pos = generic_positions(rng, n, edges)
            info["geometry"] = "generic"
    else:  # mixed: a collinear run glued to a generic remainder
        pos = generic_positions(rng, n, edges)
        adj = gen.adjacency(n, edges)
        anchors = [i for i in range(n) if len(adj[i]) >= 2]
        a = rng.choice(anchors)
        n1, n2 = sorted(adj[a])[:2]
        kind = rng.choice(["axis", "diagonal", "intdir"])
        line, d = collinear_positions(rng, 3, kind)
        # keep the three points on a line, in any order of the anchor along it
        order = [a, n1, n2]
        rng.shuffle(order)
        for idx, p in zip(order, line):
            pos[idx] = p
        if not _well_separated(pos):
            pos, d = collinear_positions(rng, n, kind)
            info["geometry"] = kind
        info["direction"] = d
    return edges, names, pos, info


def band_conformation(rng, positions, edges, n):
    """`positions` with one anchor's first frame neighbour re-placed at a small angle (1e-12 .. 2e-3 rad, log-uniform) from the
    line through the anchor and its second frame neighbour; every other anchor generic.  Returns (positions, angle) or None."""
    cand = [list(p) for p in positions]
    adj = gen.adjacency(n, [tuple(e) for e in edges])
    anchors = [i for i in range(n) if len(adj[i]) >= 2]
    if not anchors:
        return None
    a = rng.choice(anchors)
    n1, n2 = sorted(adj[a])[:2]
    p0, p2 = np.array(cand[a]), np.array(cand[n2])
    e1 = (p2 - p0) / np.linalg.norm(p2 - p0)
    u = np.cross(e1, np.array(gen.unit_vec(rng)))
    if np.linalg.norm(u) < 0.1:
        return None
    u /= np.linalg.norm(u)
    theta = 10 ** rng.uniform(-12, math.log10(2e-3))
    L1 = rng.uniform(0.08, 0.3)
    cand[n1] = list(map(float, p0 + L1 * (math.cos(theta) * e1 * rng.choice([-1, 1]) + math.sin(theta) * u)))
    if not _well_separated(cand):
        return None
    P = np.array(cand)
    for b in anchors:
        m1, m2 = sorted(adj[b])[:2]
        if b != a and XMapModel.sin_angle(P[b], P[m1], P[m2]) < 2e-3:
            return None
    return cand, theta


def _well_separated(pos, dmin=0.02):
    p = np.array(pos)
    for i in range(len(p)):
        for j in range(i + 1, len(p)):
            if np.linalg.norm(p[i] - p[j]) < dmin:
                return False
    return True


def _anchors_generic(pos, edges, n, min_sin=1e-3):
    adj = gen.adjacency(n, edges)
    p = np.array(pos)
    for a in range(n):
        if len(adj[a]) >= 2:
            n1, n2 = sorted(adj[a])[:2]
            if XMapModel.sin_angle(p[a], p[n1], p[n2]) < min_sin:
                return False
    return True


def _anchors_ok(pos, edges, n, min_sin=2e-3):
    """Every anchor is either generic (sin >= min_sin) or collinear to rounding (sin < 1e-12); nothing in between."""
    adj = gen.adjacency(n, edges)
    p = np.array(pos)
    for a in range(n):
        if len(adj[a]) >= 2:
            n1, n2 = sorted(adj[a])[:2]
            sa = XMapModel.sin_angle(p[a], p[n1], p[n2])
            if 1e-12 <= sa < min_sin:
                return False
    return True


def generic_positions(rng, n, edges):
    for _ in range(100):
        pos = gen.grow_positions(rng, n, edges, rng.choice([0.1, 0.15, 0.3]))
        if _anchors_generic(pos, edges, n, 2e-3) and _well_separated(pos):
            return pos
    raise RuntimeError("could not place generic positions")


def large_reference(rng, n):
    """A helix of n atoms bonded i-(i+1): every interior atom is an anchor with a generic frame; O(n) to build."""
    pitch, radius, dphi = rng.uniform(0.03, 0.06), rng.uniform(0.15, 0.3), rng.uniform(0.5, 1.2)
    pos = [[radius * math.cos(dphi * i) + rng.uniform(-0.01, 0.01), radius * math.sin(dphi * i) + rng.uniform(-0.01, 0.01),
            pitch * i + rng.uniform(-0.005, 0.005)] for i in range(n)]
    edges = [(i, i + 1) for i in range(n - 1)]
    names = [gen.atom_name(rng, i) for i in range(n)]
    return edges, names, pos, {"geometry": "generic", "large": n}


def gen_species(rng, tier, focus):
    small_ref = (focus == "C02" and rng.random() < 0.4) or (focus == "C03" and rng.random() < 0.12)
    if small_ref:
        n = rng.choice([1, 2, 2])
    else:
        n = rng.randint(3, 14) if tier == "quick" or rng.random() < 0.8 else rng.randint(15, 40)
    large_ref = False
    if not small_ref and focus in ("C01", "C04") and rng.random() < (0.006 if focus == "C01" else 0.002):
        # a reference of several hundred atoms (a polymer, a protein backbone): more than 256 anchors
        n = rng.choice([rng.randint(258, 300), rng.randint(300, 600), 513, 1030])
        large_ref = True
    if n >= 3:
        w = {"C01": [3, 2, 2, 2, 2, 1, 2, 2], "C02": [3, 2, 2, 2, 2, 3, 0, 2], "C03": [6, 1, 1, 1, 2, 2, 2, 1],
             "C04": [6, 1, 1, 1, 1, 1, 0, 1], "C17": [2, 2, 2, 2, 2, 2, 2, 2]}[focus]
        geometry = rng.choices(["generic", "axis", "diagonal", "intdir", "mixed", "nearly", "band", "grid"], weights=w)[0]
        if large_ref:
            edges, names, pos, info = large_reference(rng, n)
        else:
            edges, names, pos, info = gen_reference(rng, n, geometry)
    else:
        edges = [(0, 1)] if n == 2 else []
        if n == 2 and rng.random() < 0.25:
            edges = []          # a rigid two-site model whose topology lists no bond, constraint or pair at all
        names = [gen.atom_name(rng, i) for i in range(n)]
        if n == 2 and rng.random() < 0.4:
            pos, d = collinear_positions(rng, 2, rng.choice(["axis", "diagonal", "intdir"]))
        else:
            pos = gen.grow_positions(rng, n, edges, 0.2)
        info = {"geometry": "small"}
        if rng.random() < 0.3:
            # one atom EXACTLY at the origin of the coordinate system (a molecule centred there, a file written that way)
            k0 = rng.randrange(n)
            shift = np.array(pos[k0], dtype=float)
            pos = [list(map(float, np.array(p_) - shift)) for p_ in pos]
            if rng.random() < 0.3:
                pos[k0] = [-0.0, 0.0, -0.0]
            info["atom_at_origin"] = k0
    n_res = 1 if n < 2 or rng.random() < 0.6 else rng.randint(1, min(3, n))
    cuts = sorted(rng.sample(range(1, n), n_res - 1)) if n_res > 1 else []
    r = 0
    ref_resnames, ref_resids = [], []
    rid0 = rng.choice([1, 7, 300])
    for i in range(n):
        if r < len(cuts) and i == cuts[r]:
            r += 1
        ref_resnames.append("RF" + chr(65 + r))
        ref_resids.append(rid0 + r)
    ref = {"name": "SPEC", "atom_names": names, "resnames": ref_resnames, "resids": ref_resids,
           "edges": [list(e) for e in edges], "positions": pos}
    # target: any size, any graph, same number of residues, placed near the reference
    m = rng.randint(max(1, n_res), 12) if tier == "quick" or rng.random() < 0.7 else rng.randint(max(1, n_res), 40)
    tedges = gen.random_tree(rng, m)
    if rng.random() < 0.3:
        tedges = [e for e in tedges if rng.random() < 0.7]
    tnames = [gen.atom_name(rng, i, rng.random() < 0.3) for i in range(m)]
    refp = np.array(pos)
    tpos = []
    for i in range(m):
        base = refp[rng.randrange(n)]
        c = rng.random()
        if c < 0.15 and info["geometry"] != "generic":
            tpos.append(list(map(float, base + np.array([_dyadic(rng, -8, 8, 4) for _ in range(3)]))))   # lattice-like
        elif c < 0.25:
            tpos.append(list(map(float, base)))                                                        # on top of a reference atom
        else:
            tpos.append(list(map(float, base + np.array(gen.rvec(rng, rng.choice([0.05, 0.3, 1.5]))))))
    tcuts = sorted(rng.sample(range(1, m), n_res - 1)) if n_res > 1 else []
    r = 0
    t_resnames, t_resids = [], []
    same_name = n_res > 1 and rng.random() < 0.35       # neighbouring residues of ONE kind (ARG ARG, a polymer)
    for i in range(m):
        if r < len(tcuts) and i == tcuts[r]:
            r += 1
        t_resnames.append("TGX" if same_name else "TG" + chr(65 + r))
        t_resids.append(50 + r)
    tgt = {"name": "SPEC", "atom_names": tnames, "resnames": t_resnames, "resids": t_resids,
           "edges": [list(e) for e in tedges], "positions": tpos}
    if rng.random() < 0.3:
        tgt["velocities"] = [gen.rvec(rng, 1.0) for _ in range(m)]
    if focus in ("C01", "C03", "C04") and rng.random() < 0.06:
        # the whole pair sits far from the origin (legal in a .gro file up to 9999.999): nothing in the map depends on where
        # the origin of the coordinate system is
        off = np.array(gen.rvec(rng, 1.0)) * rng.choice([1000.0, 4000.0, 9000.0])
        ref["positions"] = (np.array(ref["positions"]) + off).tolist()
        tgt["positions"] = (np.array(tgt["positions"]) + off).tolist()
        info["far_from_origin"] = True
    if focus == "C04" and rng.random() < 0.12:
        # residue names that begin with a digit ("2MP", "3HB"): a name that looks like the tail of a number
        ref["resnames"] = [str(2 + (ord(rn[-1]) % 7)) + rn[:3] for rn in ref["resnames"]]
        info["digit_resnames"] = True
    scale = 1.0 if rng.random() < 0.25 else rng.choice([0.5, 0.5, rng.uniform(0.01, 2.0), 2.0, rng.uniform(0.3, 1.0)])
    if focus in ("C02", "C03", "C04") and rng.random() < 0.04:
        scale = 0.0          # "all scale factors": everything collapses onto the anchors, which still move with the argument
    return ref, tgt, scale, info, n_res


def rigid(rng, positions=None):
    R = gen.random_rotation(rng)
    t = gen.rvec(rng, rng.choice([0.0, 1.0, 30.0, 100.0, 100.0, 3000.0, 9000.0]))
    if positions is not None and rng.random() < 0.12:
        # the motion puts one reference atom EXACTLY on the origin (t = -(R p), computed the way it is applied)
        kz = rng.randrange(len(positions))
        p = np.array(positions[kz], dtype=float)
        t = (-(p @ R.T)).tolist()
        return {"R": R.tolist(), "t": t, "zero_atom": kz}
    if positions is not None and rng.random() < 0.3:
        # a rotation about an axis through one reference atom: that atom (often an anchor) stays where it was
        # while its frame neighbours move
        p = np.array(positions[rng.randrange(len(positions))], dtype=float)
        t = (p - R @ p).tolist()
    return {"R": R.tolist(), "t": t}


def deformation(rng, ref, amp=None, must_be_generic=True):
    n = len(ref["positions"])
    pos = np.array(ref["positions"])
    for _ in range(60):
        a = amp if amp is not None else rng.choice([0.01, 0.05, 0.3])
        disp = np.array([np.array(gen.unit_vec(rng)) * rng.uniform(0, a) for _ in range(n)])
        new = pos + disp
        if _well_separated(new) and (n < 3 or _anchors_generic(new, ref["edges"], n, 2e-3)):
            return new.tolist()
    return None


def collinearised(rng, ref):
    """A conformation of a generic reference in which ONE anchor is exactly collinear with its two frame neighbours
    (dyadic coordinates); every other anchor stays generic."""
    n = len(ref["positions"])
    adj = gen.adjacency(n, [tuple(e) for e in ref["edges"]])
    anchors = [i for i in range(n) if len(adj[i]) >= 2]
    if not anchors:
        return None
    for _ in range(30):
        a = rng.choice(anchors)
        n1, n2 = sorted(adj[a])[:2]
        line, _d = collinear_positions(rng, 3, rng.choice(["axis", "diagonal", "intdir"]))
        pos = [list(p) for p in ref["positions"]]
        shift = np.round(np.array(pos[a]) * 16) / 16 - np.array(line[0])
        order = [a, n1, n2]
        rng.shuffle(order)
        for idx, p in zip(order, line):
            pos[idx] = list(map(float, np.array(p) + shift))
        if not _well_separated(pos):
            continue
        P = np.array(pos)
        ok = True
        for b in anchors:
            m1, m2 = sorted(adj[b])[:2]
            sb = XMapModel.sin_angle(P[b], P[m1], P[m2])
            if b == a:
                ok = ok and sb < 1e-12
            else:
                ok = ok and (sb >= 2e-3 or sb < 1e-12)
        if ok:
            return pos
    return None


def gen_ops(rng, tier, focus, ref, tgt, info, n_res):
    n = len(ref["positions"])
    nops = rng.randint(4, 12) if tier == "quick" else rng.randint(4, 30)
    if focus == "C04":
        nops = rng.randint(8, 30)
    if info.get("large"):
        nops = rng.randint(2, 4)
    weights = {
        "C01": {"construction": 6, "rigid": 2, "deformed": 1, "one_moved": 0, "other": 1, "repeat": 1, "reject": 1, "mutate": 2},
        "C02": {"construction": 2, "rigid": 8, "deformed": 1, "one_moved": 0, "other": 1, "repeat": 1, "reject": 1, "mutate": 1},
        "C03": {"construction": 1, "rigid": 1, "deformed": 5, "one_moved": 6, "other": 1, "repeat": 1, "reject": 1, "mutate": 1},
        "C04": {"construction": 2, "rigid": 3, "deformed": 3, "one_moved": 1, "other": 3, "repeat": 3, "reject": 4, "mutate": 5,
                "construction_object": 3},
        "C17": {"construction": 3, "rigid": 5, "deformed": 3, "one_moved": 1, "other": 1, "repeat": 0, "reject": 0, "mutate": 0},
    }[focus]
    weights.setdefault("construction_object", 1 if focus != "C17" else 0)
    weights["again"] = {"C04": 3, "C17": 0}.get(focus, 0.5)
    weights["sibling_map"] = {"C02": 1, "C03": 1, "C04": 1.5, "C17": 0}.get(focus, 0.3)
    if info.get("large"):
        weights = {"construction": 3, "rigid": 3, "construction_object": 1, "reject": 1, "again": 1}
    kinds = list(weights)
    ops = []
    n_calls = 0
    cur_ref = ref          # the reference as the generator sees it (its bond list grows when the history edits the topology)
    rebond_at = None
    if focus in ("C03", "C04") and info["geometry"] == "generic" and n >= 4 and rng.random() < 0.15:
        rebond_at = rng.randint(1, max(1, nops - 2))
    if focus in ("C04", "C01") and rng.random() < (0.3 if focus == "C04" else 0.1):
        # the construction molecules change (and arguments are rejected) BEFORE the map is used for the first time
        for _ in range(rng.randint(0, 2)):
            ops.append({"op": "reject", "kind": rng.choice(["name", "atom_name", "extra_atom", "none", "residue", "array", "str",
                                                            "moleculetop"])})
        for what in rng.sample(["construction_ref", "construction_tgt"], rng.randint(1, 2)):
            ops.append({"op": "mutate", "what": what, "how": rng.choice(["move", "rotate", "overwrite"]),
                        "d": gen.rvec(rng, 3.0), "R": gen.random_rotation(rng).tolist(), "pick": rng.randrange(1000),
                        "seed": rng.randrange(2 ** 31)})
    if n < 3 and rng.random() < 0.35:
        ops.append({"op": "mutate", "what": "construction_ref", "how": rng.choice(["move", "rotate"]),
                    "d": gen.rvec(rng, 3.0), "R": gen.random_rotation(rng).tolist(), "pick": 0, "seed": rng.randrange(2 ** 31)})
        ops.append({"op": "call", "conf": "construction_object"})
    for step in range(nops):
        if rebond_at is not None and step == rebond_at:
            # the topology is EDITED (a bond is added between two atoms that already answered neighbour queries for the map
            # in use) and a new map is built on it: frames must follow the topology as it is now
            es = {tuple(sorted(e)) for e in cur_ref["edges"]}
            pairs = [(i, j) for i in range(n) for j in range(i + 1, n) if (i, j) not in es]
            rng.shuffle(pairs)
            for (i, j) in pairs[:20]:
                trial = [list(e) for e in cur_ref["edges"]] + [[i, j]]
                if _anchors_generic(ref["positions"], trial, n, 2e-3):
                    ops.append({"op": "rebond", "i": i, "j": j})
                    cur_ref = dict(ref, edges=trial)
                    break
        ref_g = cur_ref
        k = rng.choices(kinds, weights=[weights[x] for x in kinds])[0]
        if k == "construction":
            ops.append({"op": "call", "conf": "construction"})
            n_calls += 1
        elif k == "rigid":
            op = {"op": "call", "conf": "rigid"}
            op.update(rigid(rng, ref["positions"]))
            ops.append(op)
            n_calls += 1
        elif k == "deformed":
            new = deformation(rng, ref_g)
            if focus in ("C02", "C03", "C17") and n >= 3 and rng.random() < 0.2:
                # a conformation in which one anchor has become EXACTLY collinear (the map was built on another geometry)
                new = collinearised(rng, ref_g) or new
            elif focus in ("C03", "C17") and n >= 3 and new is not None and rng.random() < 0.15:
                # ...or NEARLY collinear, anywhere between rounding noise and the well-conditioned range
                b = band_conformation(rng, new, ref_g["edges"], n)
                if b is not None:
                    new = b[0]
            if new is None:
                continue
            op = {"op": "call", "conf": "deformed", "positions": new}
            if rng.random() < 0.5:
                op.update(rigid(rng, new))
            ops.append(op)
            n_calls += 1
        elif k == "one_moved":
            if n < 3:
                continue
            base = deformation(rng, ref_g, amp=rng.choice([0.0, 0.05]))
            if base is None and info["geometry"] != "generic":
                base = [list(p) for p in ref["positions"]]      # the (collinear) construction geometry itself
            if base is None:
                continue
            collinear_ok = info["geometry"] != "generic"
            ops.append({"op": "call", "conf": "deformed", "positions": base, "tag": "locality-base"})
            n_calls += 1
            atoms = list(range(n))
            rng.shuffle(atoms)
            for kk in atoms[:rng.randint(1, min(n, 5))]:
                for _ in range(30):
                    d = np.array(gen.unit_vec(rng)) * rng.uniform(0.01, 0.3)
                    new = np.array(base)
                    new[kk] = new[kk] + d
                    if _well_separated(new) and (_anchors_generic(new, ref_g["edges"], n, 2e-3) or
                                                 (collinear_ok and _anchors_ok(new, ref_g["edges"], n)) or
                                                 info["geometry"] == "band"):
                        ops.append({"op": "call", "conf": "one_moved", "k": kk, "base": base, "positions": new.tolist()})
                        n_calls += 1
                        break
        elif k == "other":
            new = deformation(rng, ref_g, amp=0.0)
            op = {"op": "call", "conf": "other_instance", "positions": new or ref["positions"],
                  # residue numbers of the argument: consecutive, or one number on every residue
                  # (numbers above 99999 cannot come from a .gro file but can be set on the objects; they are numbers all the same)
                  "gro_resids": ([rng.choice([1, 17, 4242, 99998, 100000, 123456]) + r for r in range(n_res)] if rng.random() < 0.7
                                 else [rng.choice([7, 1, 300, 99999, 250000])] * n_res),
                  "velocities": rng.random() < 0.3}
            op.update(rigid(rng))
            ops.append(op)
            n_calls += 1
        elif k == "construction_object":
            ops.append({"op": "call", "conf": "construction_object"})
            n_calls += 1
        elif k == "sibling_map":
            # ANOTHER map is built on the very same two molecule objects with another scale and kept alive (what
            # Alignment.init_exchange_map does when the scale is changed): the first map must not notice
            ops.append({"op": "sibling_map", "scale": rng.choice([1.0, 0.5, 0.25, 1.7]), "how": rng.choice(["new", "new", "copy"])})
        elif k == "again":
            # the very OBJECT that was an argument before (possibly moved by the history since) is offered again
            ops.append({"op": "call", "conf": "argument_again", "pick": rng.randrange(1000)})
            n_calls += 1
        elif k == "repeat":
            calls = [i for i, o in enumerate(ops) if o["op"] == "call"]
            if calls:
                ops.append({"op": "repeat", "of": rng.choice(calls)})
                n_calls += 1
                if rng.random() < 0.5:
                    # ...and the same argument again, ALMOST: every atom displaced by 1e-9..1e-4 nm.  A map that reuses
                    # per-call state when the argument "has not moved" by some tolerance returns the stale result
                    ops.append({"op": "repeat", "of": ops[-1]["of"], "jitter": 10 ** rng.uniform(-9, -4), "jseed": rng.randrange(2 ** 31)})
                    n_calls += 1
        elif k == "reject":
            ops.append({"op": "reject", "kind": rng.choice(["name", "atom_name", "extra_atom", "none", "residue", "array", "str",
                                                            "moleculetop", "permuted", "fewer", "residue_relabelled",
                                                            "residue_relabelled"])})
            if rng.random() < 0.4:
                # the SAME wrong object (or a copy of it, which shares its topology) is offered again, possibly with other
                # rejected things in between: a rejection must not depend on what was offered before
                if rng.random() < 0.4:
                    ops.append({"op": "reject", "kind": rng.choice(["none", "array", "str"])})
                ops.append({"op": "reject_again", "pick": rng.randrange(1000), "copy": rng.random() < 0.5})
        elif k == "mutate":
            what = rng.choice(["construction_ref", "construction_tgt", "result", "argument"])
            op = {"op": "mutate", "what": what, "how": rng.choice(["move", "rotate", "overwrite", "inplace"]),
                  "d": gen.rvec(rng, 3.0), "R": gen.random_rotation(rng).tolist(), "pick": rng.randrange(1000),
                  "seed": rng.randrange(2 ** 31)}
            ops.append(op)
    # a history always ends with calls, so that rejections / mutations are followed by evidence of a usable map
    ops.append({"op": "call", "conf": "construction"})
    op = {"op": "call", "conf": "rigid"}
    op.update(rigid(rng, ref["positions"]))
    ops.append(op)
    return ops


def generate(rng, tier, focus):
    ref, tgt, scale, info, n_res = gen_species(rng, tier, focus)
    ops = gen_ops(rng, tier, focus, ref, tgt, info, n_res)
    tr = {"focus": focus, "ref": ref, "tgt": tgt, "scale": scale, "info": info, "ops": ops,
          "np_seed": rng.randrange(2 ** 32), "eq_early": rng.random() < 0.5,
          "via_alignment": rng.choice([None, None, None, "plain", "nudge"]), "nudge": gen.rvec(rng, 0.2)}
    if len(ref["positions"]) < 3:
        # override script for the frame completion draw (rand(3) in the map): corners / faces of the unit cube
        tr["script"] = {"completion": rng.choice(["none", "none", "corner", "face", "tiny"]),
                        "p": rng.choice([0.2, 0.5, 1.0]), "seed": rng.randrange(2 ** 31)}
    return tr


def abbreviate(trace):
    return {"focus": trace["focus"], "n_ref": len(trace["ref"]["positions"]), "n_tgt": len(trace["tgt"]["positions"]),
            "geometry": trace["info"], "scale": trace["scale"], "ref_edges": trace["ref"]["edges"],
            "ops": [{k: v for k, v in o.items() if k in ("op", "conf", "kind", "what", "how", "of", "k", "tag")} for o in trace["ops"]]}


def simplify(trace):
    # drop velocities, simplify scale, shrink the target
    if "velocities" in trace["tgt"]:
        t = dict(trace)
        t["tgt"] = {k: v for k, v in trace["tgt"].items() if k != "velocities"}
        yield t
    m = len(trace["tgt"]["positions"])
    n_res_t = len(set(trace["tgt"]["resids"]))
    if m > 1 and n_res_t == 1:
        for keep in (list(range(m // 2)), list(range(m // 2, m)), list(range(1, m)), list(range(m - 1))):
            if not keep:
                continue
            tg = trace["tgt"]
            idx = {old: new for new, old in enumerate(keep)}
            nt = {"name": tg["name"], "atom_names": [tg["atom_names"][i] for i in keep],
                  "resnames": [tg["resnames"][i] for i in keep], "resids": [tg["resids"][i] for i in keep],
                  "edges": [[idx[a], idx[b]] for a, b in tg["edges"] if a in idx and b in idx],
                  "positions": [tg["positions"][i] for i in keep]}
            t = dict(trace)
            t["tgt"] = nt
            yield t
    if trace["scale"] not in (1.0, 0.5):
        for s in (1.0, 0.5):
            t = dict(trace)
            t["scale"] = s
            yield t
    for i, o in enumerate(trace["ops"]):
        if o.get("op") == "call" and "R" in o and o["R"] != np.eye(3).tolist():
            no = dict(o, R=np.eye(3).tolist())
            t = dict(trace)
            t["ops"] = trace["ops"][:i] + [no] + trace["ops"][i + 1:]
            yield t
        if o.get("op") == "call" and "t" in o and any(o["t"]):
            no = dict(o, t=[0.0, 0.0, 0.0])
            t = dict(trace)
            t["ops"] = trace["ops"][:i] + [no] + trace["ops"][i + 1:]
            yield t


# --------------------------------------------------------------------------
# execution
# --------------------------------------------------------------------------

PROP_OF_CONF = {"construction": "C01", "rigid": "C02", "deformed": "C03", "one_moved": "C03", "other_instance": "C04",
                "construction_object": "C04", "argument_again": "C04"}


def snap(mol):
    v = mol.atoms_velocities
    return (np.array(mol.atoms_positions, copy=True), None if v is None else np.array(v, copy=True),
            list(mol.atoms_ids), list(mol.resids))


def same_snap(a, b):
    if not np.array_equal(a[0], b[0]):
        return "coordinates"
    if (a[1] is None) != (b[1] is None) or (a[1] is not None and not np.array_equal(a[1], b[1])):
        return "velocities"
    if a[2] != b[2]:
        return "atom numbers"
    if a[3] != b[3]:
        return "residue numbers"
    return None


class FrameMonitor:
    """In-situ monitor for every frame the map builds (C17)."""

    def __init__(self, ctx, orig):
        self.ctx = ctx
        self.orig = orig
        self.last = []
        self.retained = []       # (returned object, bitwise snapshot at return time)

    def recheck(self):
        """Frames handed out earlier must still be what they were when returned (a result that aliases a scratch buffer
        of the library is overwritten by later calls)."""
        for out, snap_ in self.retained:
            try:
                (v1, v2, v3), origin = out
                now = np.array([v1, v2, v3], dtype=float)      # (the origin IS the caller's first point, by design)
            except Exception:
                continue
            if not np.array_equal(now, snap_):
                self.ctx.violate("C17", "returned-frame-changed-later", "a frame returned by calcule_base changed after a LATER call "
                                                                        f"(returned {snap_[:3].tolist()}, now {now[:3].tolist()})")
                return False
        return True

    def __call__(self, pos, *extra, **kw):
        # (extra arguments a changed implementation may pass are handed through: the monitor judges the returned frame)
        ctx = self.ctx
        before = [np.array(p, dtype=float, copy=True) for p in pos]
        out = self.orig(pos, *extra, **kw)
        ctx.counters["frames"] += 1
        try:
            (v1, v2, v3), origin = out
            F = np.array([v1, v2, v3], dtype=float)
            origin = np.array(origin, dtype=float)
        except Exception as e:
            ctx.violate("C17", "frame-shape", f"calcule_base returned something that is not ((v1,v2,v3), origin): {e!r}")
            return out
        if len(self.retained) < 64:
            self.retained.append((out, np.array([F[0], F[1], F[2]], dtype=float)))
        after = [np.array(p, dtype=float) for p in pos]
        if any(not np.array_equal(a, b) for a, b in zip(before, after)):
            ctx.violate("C17", "frame-inputs-modified", "calcule_base modified its input points")
        p0, p1, p2 = before
        if np.array_equal(p0, p2):
            return out     # outside the property's domain (first and third point must differ)
        scale = max(np.linalg.norm(p2 - p0), 1e-300)
        s = XMapModel.sin_angle(p0, p1, p2)
        # every clause but the direction of the normal is well conditioned for ANY three points: nothing below depends on
        # where an implementation draws its own line between "collinear" and "generic"
        if s < 1e-9:
            key = "collinear"
            ctx.probe("collinear_frame")
            if np.array_equal(p0, p1):
                ctx.probe("coincident_middle_point")
        elif s < 1e-3:
            key = "near-collinear"
            ctx.probe("near_collinear_frame")
        else:
            key = "generic"
        if not np.all(np.isfinite(F)):
            ctx.violate("C17", "frame-not-finite", f"frame of points {[p.tolist() for p in before]} contains non-finite "
                                                   f"values: {F.tolist()}", key=key)
            return out
        err = np.max(np.abs(F @ F.T - np.eye(3)))
        if err > 1e-12:
            ctx.violate("C17", "frame-not-orthonormal", f"frame of points {[p.tolist() for p in before]} is not orthonormal "
                                                        f"(max |F F^T - 1| = {err:.3e}, sine of the angle at the first point "
                                                        f"{s:.3e}): {F.tolist()}", key=key)
        elif abs(np.linalg.det(F) - 1) > 1e-12:
            ctx.violate("C17", "frame-left-handed", f"frame has determinant {np.linalg.det(F)!r}", key=key)
        e1 = (p2 - p0) / scale
        if np.max(np.abs(F[0] - e1)) > 1e-12:
            ctx.violate("C17", "frame-first-vector", f"first vector {F[0].tolist()} does not point from the first to the "
                                                     f"third point ({e1.tolist()})", key=key)
        L1 = np.linalg.norm(p1 - p0)
        if L1 > 0 and s > 0:
            # normal to the plane: the rounding error of a cross product is ~eps relative to the vectors, i.e. ~eps/sin
            # relative to the normal; below sin ~ 1e-7 the bound is weaker than what orthogonality to the first vector implies
            d1 = (p1 - p0) / L1
            allowed = 1e-12 + 64 * 2.3e-16 / s
            if allowed < s and abs(F[2] @ d1) > allowed:
                ctx.violate("C17", "frame-normal", f"third vector is not normal to the plane of the points "
                                                   f"(dot product with the second direction {F[2] @ d1:.3e}, allowed {allowed:.1e}, "
                                                   f"sine {s:.3e})", key=key)
        if not np.array_equal(origin, p0):
            ctx.violate("C17", "frame-origin", f"origin {origin.tolist()} is not the first point {p0.tolist()}", key=key)
        return out


def execute(trace, ctx):
    import gaddlemaps._exchage_map as XM
    from gaddlemaps import ExchangeMap
    from gaddlemaps.components import Molecule, Residue

    ref_spec, tgt_spec, scale = trace["ref"], trace["tgt"], trace["scale"]
    n, m = len(ref_spec["positions"]), len(tgt_spec["positions"])
    ref_pos0 = np.array(ref_spec["positions"], dtype=float)
    tgt_pos0 = np.array(tgt_spec["positions"], dtype=float)
    script = trace.get("script") or {}
    seam = RandomSeam(ctx, trace["np_seed"])
    if script.get("completion", "none") != "none":
        import random as _random
        srng = _random.Random(script["seed"])

        state = {"draws": 0}

        def overrider(site, fname, args, kwargs, draw):
            if fname != "rand" or site not in ("_calculate_refsystems", "<listcomp>"):
                return NotImplemented
            if srng.random() >= script["p"]:
                state["draws"] += 1
                return NotImplemented
            ctx.fault("completion_override:" + script["completion"])
            hi = math.nextafter(1.0, 0.0)
            state["draws"] += 1
            # a one-atom reference draws two points per frame; the second one is the END of the first axis and
            # must not coincide with the atom itself (first and third point distinct: the domain of C17)
            end_point = (n == 1 and state["draws"] % 2 == 0)
            if script["completion"] == "corner":
                while True:
                    v = np.array([srng.choice([0.0, hi]) for _ in range(3)])
                    if not end_point or v.any():
                        return v
            if script["completion"] == "face":
                v = np.array([srng.random() for _ in range(3)])
                v[srng.randrange(3)] = srng.choice([0.0, hi])
                return v
            return np.array([srng.random() * 1e-9 + 1e-12 for _ in range(3)])
        seam.overrider = overrider

    mon = FrameMonitor(ctx, XM.calcule_base)
    with seam, patched(XM, "calcule_base", mon):
        _execute(trace, ctx, ref_spec, tgt_spec, scale, n, m, ref_pos0, tgt_pos0)
    mon.recheck()


def _execute(trace, ctx, ref_spec, tgt_spec, scale, n, m, ref_pos0, tgt_pos0):
    from gaddlemaps import ExchangeMap
    from gaddlemaps.components import Residue
    P4 = "C04"
    small = n < 3
    shared_top = gen.make_moltop(ref_spec["name"], ref_spec["atom_names"], ref_spec["resnames"], ref_spec["resids"],
                                 ref_spec["edges"])

    def ref_instance(positions, gro_resids=None, velocities=None, own_top=False):
        top = None if own_top else shared_top
        return gen.make_molecule(ref_spec, positions=positions, gro_resids=gro_resids, velocities=velocities, moltop=top)

    def fresh_map():
        r = gen.make_molecule(ref_spec)
        t = gen.make_molecule(tgt_spec)
        return ExchangeMap(r, t, scale)

    ref_live = ref_instance(ref_spec["positions"])
    if trace["np_seed"] % 7 == 5:
        # the target was placed by assigning a float32 array (values exactly representable in both widths)
        t32 = np.asarray(tgt_spec["positions"], dtype=np.float32)
        tgt_spec = dict(tgt_spec, positions=t32.astype(np.float64).tolist())
        tgt_pos0 = np.array(tgt_spec["positions"], dtype=float)
        tgt_live = gen.make_molecule(tgt_spec)
        tgt_live.atoms_positions = t32.copy()
        ctx.probe("target_positions_float32")
    else:
        tgt_live = gen.make_molecule(tgt_spec)
    scale_arg = scale
    if trace["np_seed"] % 3 == 0:
        # the same number in another form: a Python int for whole numbers, a numpy scalar otherwise
        scale_arg = int(scale) if float(scale).is_integer() else np.float64(scale)
        ctx.probe("scale_as_int_or_numpy_scalar")
    try:
        via = trace.get("via_alignment")
        if via and not small:
            # the other way maps are built in practice: Alignment.init_exchange_map on the molecules the alignment holds
            from gaddlemaps import Alignment
            ali = Alignment(ref_live, tgt_live)
            ali.init_exchange_map(scale_arg)
            if via == "nudge":
                # the overlap is adjusted on the LIVE end molecule and the map is initialised again with the same scale
                ali.end.move(np.array(trace.get("nudge", [0.05, -0.03, 0.02])))
                ali.init_exchange_map(scale_arg)
            themap = ali.exchange_map
            ref_live, tgt_live = ali.start, ali.end
            tgt_pos0 = np.array(tgt_live.atoms_positions, dtype=float)
            tgt_spec = dict(tgt_spec, positions=tgt_pos0.tolist())
            ctx.probe("map_built_through_alignment" + ("_after_nudge" if via == "nudge" else ""))
        else:
            themap = ExchangeMap(ref_live, tgt_live, scale_arg)
    except Exception as e:
        ctx.op("construct", "raised")
        # a map that cannot be built violates every property that speaks about maps: attributed to the property in focus
        ctx.violate(trace["focus"] if trace.get("focus") in ("C01", "C02", "C03", "C04") else "C01", "construction-raised",
                    f"ExchangeMap(ref, tgt, {scale}) raised {type(e).__name__}: {e}", key=trace["info"]["geometry"])
        return
    ctx.op("construct", trace["info"]["geometry"])
    model = XMapModel(ref_pos0, [tuple(e) for e in ref_spec["edges"]], tgt_pos0, scale) if not small else None
    tgt_names = list(tgt_spec["atom_names"])

    # anchor assignment (from the implementation, validated against the model's tie sets).  Read either right after
    # construction or -- trace["eq_early"] false -- only after the first successful call: reading `equivalences` is itself
    # an observation, and a map that builds its tables on first use would be forced to build them by the harness before
    # the history had a chance to mutate the construction molecules
    assignment = None
    assignment_read = [False]

    def read_assignment():
        nonlocal assignment
        if assignment_read[0] or small:
            return
        assignment_read[0] = True
        try:
            eq = themap.equivalences
            assignment = [None] * m
            for a, ts in eq.items():
                for t in ts:
                    assignment[int(t)] = int(a)
        except Exception as e:
            ctx.violate("C01", "equivalences-raised", f"equivalences raised {e!r}")
            assignment = None
        if assignment is not None:
            if any(a is None for a in assignment) or sorted(t for ts in eq.values() for t in ts) != list(range(m)):
                ctx.violate("C01", "equivalences-incomplete", f"equivalences {eq} do not list every target atom exactly once")
                assignment = None
        if assignment is not None:
            for t, a in enumerate(assignment):
                tied = model.tied_anchors(t)
                if a not in tied:
                    ctx.violate("C01", "wrong-anchor", f"target atom {t} is assigned to reference atom {a}; the closest "
                                                       f"reference atoms with two bonds are {tied}")
                    assignment = None
                    break
                if len(tied) > 1:
                    ctx.probe("anchor_tie")

    def model_assignment():
        """The statement's own rule (closest reference atom with two bonds), where it names one atom; None at ties."""
        out = []
        for t in range(m):
            tied = model.tied_anchors(t)
            out.append(tied[0] if len(tied) == 1 else None)
        return out

    if trace.get("eq_early", True):
        read_assignment()
    else:
        ctx.probe("equivalences_read_after_first_call")

    # baseline on the construction configuration from an independent fresh map
    base_map = fresh_map()
    base_result = np.array(base_map(ref_instance(ref_spec["positions"])).atoms_positions)
    results = []        # (call op index, argument positions, result positions)
    returned = []       # [molecule, snapshot]

    def held_no_longer_lawful(r, s_then, conf):
        """C01-C03 speak of the molecule the map RETURNS: it was judged against the law when it came back, and the caller
        still holds it.  If a later call moved it (a result that aliases a buffer of the map) by more than the law's own
        tolerance, the molecule mapped from that configuration no longer obeys the law."""
        prop = PROP_OF_CONF.get(conf)
        if prop not in ("C01", "C02", "C03"):
            return
        try:
            now = np.array(r.atoms_positions, dtype=float)
        except Exception:
            return
        then = s_then[0]
        if now.shape != then.shape:
            return
        dev = float(np.max(np.abs(now - then)))
        scale_ = max(1.0, float(np.max(np.abs(then))))
        if dev > 1e-9 * scale_:
            ctx.violate(prop, "held-result-moved", f"a molecule returned for the {conf} configuration obeyed the law when it "
                                                   f"came back and was moved by {dev:.3e} nm by a later call on the map")
    arguments = []      # [molecule, snapshot at call time]
    calls_by_op = {}
    snap_ref_live = snap(ref_live)
    snap_tgt_live = snap(tgt_live)
    pending_reject = False
    siblings = []
    construction_rigid = [True]      # the construction reference has only been moved / rotated so far (not overwritten)
    rejected_objects = []
    collinear_constr = (not small) and any(model.anchor_sin(a) < 1e-9 for a in model.anchors)
    if collinear_constr:
        ctx.probe("collinear_reference")

    def conf_positions(op):
        if op["conf"] == "construction_object":
            return np.array(ref_live.atoms_positions, dtype=float)      # wherever the harness' mutations left it
        if op["conf"] == "argument_again":
            return np.array(arguments[op["pick"] % len(arguments)][0].atoms_positions, dtype=float)
        if op["conf"] == "construction":
            pos = ref_pos0.copy()
        elif op["conf"] == "rigid":
            pos = ref_pos0.copy()
        else:
            pos = np.array(op["positions"], dtype=float)
        if "R" in op:
            R = np.array(op["R"])
            pos = pos @ R.T + np.array(op["t"])
            if op.get("zero_atom") is not None and op["zero_atom"] < len(pos):
                pos = pos - pos[op["zero_atom"]]          # (rounding residue of R p + t removed: that atom sits at 0.0 exactly)
        return pos

    def do_call(op, i):
        nonlocal pending_reject, assignment
        prop = PROP_OF_CONF[op["conf"]]
        if op["conf"] == "argument_again" and not arguments:
            return None
        pos = conf_positions(op)
        own = op["conf"] == "other_instance"
        vel = [[0.1 * k, 0.2, -0.3] for k in range(n)] if op.get("velocities") else None
        if op["conf"] == "construction_object":
            arg = ref_live           # the very object the map was built from
            ctx.probe("called_on_construction_object")
        elif op["conf"] == "argument_again":
            arg = arguments[op["pick"] % len(arguments)][0]
            ctx.probe("same_argument_object_again")
        else:
            arg = ref_instance(pos, gro_resids=_expand_resids(ref_spec, op.get("gro_resids")), velocities=vel, own_top=own)
        arg_snap = snap(arg)
        before_ret = [snap(r[0]) for r in returned]
        try:
            res = themap(arg)
        except Exception as e:
            ctx.op("call:" + op["conf"], "raised")
            ctx.violate(prop, "call-raised", f"map({op['conf']} configuration) raised {type(e).__name__}: {e}",
                        key=trace["info"]["geometry"])
            if pending_reject:
                ctx.violate(P4, "unusable-after-rejection", f"the call after a rejected argument raised {type(e).__name__}: {e}")
            return None
        pending_reject = False
        ctx.steps += 1
        read_assignment()
        if assignment is None and not small:
            # the library's table is unusable (already reported): the remaining oracles use the statement's rule instead of
            # going silent
            assignment = model_assignment()
            ctx.probe("assignment_from_model")
        # ---- C04: purity ------------------------------------------------------------------
        d = same_snap(arg_snap, snap(arg))
        if d:
            ctx.violate(P4, "argument-modified", f"mapping changed the {d} of its argument")
        d = same_snap(snap_ref_live, snap(ref_live))
        if d:
            ctx.violate(P4, "construction-ref-modified", f"mapping changed the {d} of the reference the map was built from")
        d = same_snap(snap_tgt_live, snap(tgt_live))
        if d:
            ctx.violate(P4, "construction-tgt-modified", f"mapping changed the {d} of the target the map was built from")
        for (r, s0, _c), s_before in zip(returned, before_ret):
            d = same_snap(s_before, snap(r))
            if d:
                ctx.violate(P4, "earlier-result-modified", f"mapping changed the {d} of a previously returned molecule")
                held_no_longer_lawful(r, s_before, _c)
                break
        # ---- C04: metadata ----------------------------------------------------------------
        try:
            rpos = np.array(res.atoms_positions, dtype=float)
            names = [a.name for a in res]
            resnames = list(res.resnames)
            resids = list(res.resids)
        except Exception as e:
            ctx.violate(P4, "result-unusable", f"the returned object is not a usable molecule: {e!r}")
            return None
        if res is tgt_live or any(res is r[0] for r in returned):
            ctx.violate(P4, "result-not-fresh", "the map returned an object it had handed out before (or its own target)")
        if rpos.shape != (m, 3) or names != tgt_names:
            ctx.violate(P4, "result-atoms", f"result has atoms {names[:6]}... ({len(names)}), target has {tgt_names[:6]}... ({m})")
            return None
        want_resn = _runs(tgt_spec["resnames"], tgt_spec["resids"])
        if resnames != want_resn:
            ctx.violate(P4, "result-resnames", f"result residue names {resnames}, target's are {want_resn}")
        if resids != list(arg.resids):
            ctx.violate(P4, "result-resids", f"result residue numbers {resids}, argument's are {list(arg.resids)}")
        if not np.all(np.isfinite(rpos)):
            ctx.op("call:" + op["conf"], "non-finite")
            ctx.violate(prop, "result-not-finite", f"map({op['conf']} configuration) returned non-finite coordinates",
                        key=trace["info"]["geometry"])
            returned.append([res, snap(res), op["conf"]])
            return None
        coord_scale = max(1.0, float(np.max(np.abs(pos))), float(np.max(np.abs(rpos))))
        # ---- C04: equals a freshly built map (references of >= 3 atoms) ----------------------------
        if not small:
            try:
                fr = np.array(fresh_map()(ref_instance(pos)).atoms_positions)
                dev = float(np.max(np.abs(fr - rpos)))
                if dev > 1e-12 * coord_scale:
                    ctx.violate(P4, "differs-from-fresh-map", f"result differs from a freshly built map's by {dev:.3e} nm "
                                                              f"after {len(results)} earlier calls")
            except Exception as e:
                ctx.violate(P4, "fresh-map-raised", f"a freshly built map raised on the same argument: {e!r}")
        # identical arguments give identical results
        for (j, apos, rp) in results:
            if apos.shape == pos.shape and np.array_equal(apos, pos):
                dev = float(np.max(np.abs(rp - rpos)))
                if not small and dev > 1e-12 * coord_scale:
                    ctx.violate(P4, "history-dependent", f"the same argument mapped at operations {j} and {i} gave results "
                                                         f"{dev:.3e} nm apart")
                break
        # ---- model prediction (generic anchors) -------------------------------------------------
        # (only for rigid copies of the construction configuration: there C01 + C02 determine the result; for
        #  deformed conformations the properties fix distances and locality, not the frame convention)
        if not small and assignment is not None and op["conf"] in ("construction", "rigid", "other_instance"):
            pred = model.predict([a if a is not None else model.anchors[0] for a in assignment], pos)
            pred = [p if a is not None else None for p, a in zip(pred, assignment)]
            worst = 0.0
            for t, p in enumerate(pred):
                if p is not None:
                    worst = max(worst, float(np.max(np.abs(p - rpos[t]))))
            if worst > 1e-9 * coord_scale:
                ctx.violate(prop if prop != "C04" else P4, "model-mismatch",
                            f"result deviates {worst:.3e} nm from the frame model prediction ({op['conf']})",
                            key=trace["info"]["geometry"])
        # ---- property specific clauses -------------------------------------------------------
        outcome = "ok"
        if op["conf"] == "construction" or (op["conf"] in ("construction_object", "argument_again") and
                                            np.array_equal(pos, ref_pos0)):
            # (the construction configuration, as a new instance or as the very object the map was built from)
            check_c01(pos, rpos)
        if op["conf"] in ("rigid", "other_instance") or (op["conf"] == "construction"):
            check_c02(op, pos, rpos, coord_scale)
            if op["conf"] == "rigid" and not small:
                # the same comparison as a caller makes it: map(ref) obtained EARLIER and still held, map(R ref + t) obtained now
                held = next((e for e in reversed(returned) if e[2] == "construction"), None)
                if held is not None:
                    try:
                        live = np.array(held[0].atoms_positions, dtype=float)
                    except Exception:
                        live = None
                    if live is not None and live.shape == rpos.shape:
                        want_live = live @ np.array(op["R"]).T + np.array(op["t"])
                        want_snap = held[1][0] @ np.array(op["R"]).T + np.array(op["t"])
                        d_live = float(np.max(np.abs(want_live - rpos)))
                        d_snap = float(np.max(np.abs(want_snap - rpos)))
                        if d_live > 1e-8 * max(1.0, coord_scale / 100.0) and d_snap <= 1e-8 * max(1.0, coord_scale / 100.0):
                            ctx.violate("C02", "rigid-motion-held-result",
                                        f"map(R ref + t) equals R map(ref) + t only for a snapshot of map(ref): the molecule "
                                        f"returned for ref, still held by the caller, now gives a difference of {d_live:.3e} nm")
                        ctx.probe("equivariance_against_held_result")
        if op["conf"] == "construction_object" and small and construction_rigid[0]:
            # the construction object itself, wherever the harness' rigid mutations have left it
            check_c02(op, pos, rpos, coord_scale)
        if op["conf"] in ("construction_object", "argument_again") and not small:
            # ... for larger references the rigid motion is recovered from the coordinates (a least-squares fit that is
            # exact for a rigid copy); anything that is not a rigid copy of the construction configuration is left to C03
            fit = _rigid_fit(ref_pos0, pos)
            if fit is not None:
                check_c02({"R": fit[0], "t": fit[1]}, pos, rpos, coord_scale)
                ctx.probe("equivariance_on_moved_object")
        if op["conf"] in ("deformed", "one_moved", "rigid", "other_instance", "construction", "construction_object"):
            check_c03_shape(pos, rpos)
        if op["conf"] == "one_moved":
            check_c03_locality(op, pos, rpos)
        if op["conf"] == "deformed" and "R" in op and not small and assignment is not None and not op.get("_inner"):
            # C02 for a non-construction conformation D: map(R D + t) against R map(D) + t
            D = np.array(op["positions"], dtype=float)
            inner = do_call({"op": "call", "conf": "deformed", "positions": op["positions"], "_inner": True}, i)
            if inner is not None:
                R = np.array(op["R"])
                want = inner @ R.T + np.array(op["t"])
                tol8 = 1e-8 * max(1.0, coord_scale / 100.0)
                for k in range(m):
                    a = assignment[k]
                    if a is None:
                        continue
                    sa = model.anchor_sin(a, D)
                    if sa >= 1e-3:
                        dev = float(np.max(np.abs(rpos[k] - want[k])))
                        if dev > tol8:
                            ctx.violate("C02", "rigid-motion", f"deformed conformation D: map(R D + t) differs from R map(D) + t by "
                                                               f"{dev:.3e} nm at target atom {k} (anchor {a})", key="deformed")
                            break
                    elif sa < 1e-9:
                        n1, n2 = model.neigh[a]
                        u1 = (pos[n2] - pos[a]) / np.linalg.norm(pos[n2] - pos[a])
                        u0 = (D[n2] - D[a]) / np.linalg.norm(D[n2] - D[a])
                        i1 = axis_invariants(rpos[k], pos[a], u1)
                        i0 = axis_invariants(inner[k], D[a], u0)
                        if max(abs(x - y) for x, y in zip(i1, i0)) > tol8:
                            ctx.violate("C02", "collinear-axis-invariants", f"conformation with collinear anchor {a}: target atom {k} "
                                                                            f"has (distance, axial, radial) = {i1}, but {i0} before the "
                                                                            f"rigid motion", key="deformed-collinear")
                            break
                ctx.probe("equivariance_on_deformed_conformation")
        results.append((i, pos, rpos))
        returned.append([res, snap(res), op["conf"]])
        arguments.append([arg, arg_snap])
        calls_by_op[i] = (pos, rpos)
        ctx.op("call:" + op["conf"], outcome)
        ctx.nontrivial = True
        return rpos

    def check_c01(pos, rpos):
        if small or assignment is None:
            return
        worst = 0.0
        wt = None
        for t, a in enumerate(assignment):
            if a is None:
                continue
            want = ref_pos0[a] + scale * (tgt_pos0[t] - ref_pos0[a])
            dev = float(np.max(np.abs(want - rpos[t])))
            if dev > worst:
                worst, wt = dev, t
        tol = 1e-9                  # the statement's figure, absolute (coordinates here stay below ~50 nm: rounding ~1e-13)
        if worst > tol:
            a = assignment[wt]
            ctx.violate("C01", "anchor-scale-law", f"scale {scale}: target atom {wt} (anchor {a}, geometry "
                                                   f"{trace['info']['geometry']}) is mapped {worst:.3e} nm away from a + s*(p - a)",
                        key=trace["info"]["geometry"])

    def check_c02(op, pos, rpos, coord_scale):
        R = np.array(op["R"]) if "R" in op else np.eye(3)
        t = np.array(op["t"]) if "t" in op else np.zeros(3)
        want = base_result @ R.T + t
        if small:
            p0 = pos[0]
            b0 = ref_pos0[0]
            if n == 2:
                # "up to a rotation about that axis": ONE rotation for the whole mapped molecule
                for x in range(m):
                    for y in range(x + 1, m):
                        d1 = np.linalg.norm(rpos[x] - rpos[y])
                        d0 = np.linalg.norm(base_result[x] - base_result[y])
                        if abs(d1 - d0) > 1e-8:
                            ctx.violate("C02", "two-atom-not-one-rotation",
                                        f"two-atom reference: mapped atoms {x},{y} are {d1!r} nm apart, {d0!r} on the construction "
                                        f"configuration (the atoms were not rotated together)")
                            return
            # a rotation, not a mirror image: signed volumes (one atom: about the atom; two atoms: about the bond axis) keep
            # their sign and size
            if n == 2:
                u1 = (pos[1] - pos[0]) / np.linalg.norm(pos[1] - pos[0])
                u0 = (ref_pos0[1] - ref_pos0[0]) / np.linalg.norm(ref_pos0[1] - ref_pos0[0])
            for x in range(min(m, 7)):
                for y in range(x + 1, min(m, 7)):
                    zs = [None] if n == 2 else range(y + 1, min(m, 7))
                    for z in zs:
                        if n == 2:
                            v1 = float(np.dot(u1, np.cross(rpos[x] - p0, rpos[y] - p0)))
                            v0 = float(np.dot(u0, np.cross(base_result[x] - b0, base_result[y] - b0)))
                            size = np.linalg.norm(base_result[x] - b0) * np.linalg.norm(base_result[y] - b0)
                        else:
                            v1 = float(np.dot(rpos[z] - p0, np.cross(rpos[x] - p0, rpos[y] - p0)))
                            v0 = float(np.dot(base_result[z] - b0, np.cross(base_result[x] - b0, base_result[y] - b0)))
                            size = (np.linalg.norm(base_result[x] - b0) * np.linalg.norm(base_result[y] - b0)
                                    * np.linalg.norm(base_result[z] - b0))
                        if abs(v1 - v0) > 1e-8 * max(1.0, size):
                            ctx.violate("C02", "small-ref-mirror-image",
                                        f"{n}-atom reference: the signed volume spanned by mapped atoms {x},{y}"
                                        f"{'' if z is None else ',' + str(z)} is {v1!r}, {v0!r} on the construction "
                                        f"configuration (a mirror image, not a rotation)")
                            return
            for k in range(m):
                if n == 1:
                    d1 = np.linalg.norm(rpos[k] - p0)
                    d0 = np.linalg.norm(base_result[k] - b0)
                    if abs(d1 - d0) > 1e-8:
                        ctx.violate("C02", "one-atom-distance", f"one-atom reference: target atom {k} is {d1!r} from the "
                                                                f"reference atom, {d0!r} on the construction configuration")
                        return
                else:
                    u1 = (pos[1] - pos[0]) / np.linalg.norm(pos[1] - pos[0])
                    u0 = (ref_pos0[1] - ref_pos0[0]) / np.linalg.norm(ref_pos0[1] - ref_pos0[0])
                    i1 = axis_invariants(rpos[k], p0, u1)
                    i0 = axis_invariants(base_result[k], b0, u0)
                    dev = max(abs(a - b) for a, b in zip(i1, i0))
                    if dev > 1e-8:
                        ctx.violate("C02", "two-atom-axis-invariants",
                                    f"two-atom reference: target atom {k} has (distance, axial, radial) = {i1} about the "
                                    f"bond axis, but {i0} on the construction configuration")
                        return
            return
        if assignment is None:
            return
        tol8 = 1e-8 * max(1.0, coord_scale / 100.0)      # the statement's figure up to 100 nm, relative beyond ...
        for k in range(m):
            a = assignment[k]
            if a is None:
                continue
            if model.anchor_sin(a) >= 1e-3:
                dev = float(np.max(np.abs(rpos[k] - want[k])))
                # ... for anchors near collinearity; a well-conditioned anchor (angle above ~6 degrees) keeps 1e-8 nm anywhere
                if dev > (1e-8 * max(1.0, coord_scale / 3000.0) if model.anchor_sin(a) >= 0.1 else tol8):
                    ctx.violate("C02", "rigid-motion", f"map(R ref + t) differs from R map(ref) + t by {dev:.3e} nm at "
                                                       f"target atom {k} (anchor {a})", key="generic")
                    return
            elif model.anchor_sin(a) < 1e-9:
                n1, n2 = model.neigh[a]
                u1 = (pos[n2] - pos[a]) / np.linalg.norm(pos[n2] - pos[a])
                u0 = (ref_pos0[n2] - ref_pos0[a]) / np.linalg.norm(ref_pos0[n2] - ref_pos0[a])
                i1 = axis_invariants(rpos[k], pos[a], u1)
                i0 = axis_invariants(base_result[k], ref_pos0[a], u0)
                dev = max(abs(x - y) for x, y in zip(i1, i0))
                if dev > tol8:
                    ctx.violate("C02", "collinear-axis-invariants",
                                f"collinear anchor {a}: target atom {k} has (distance, axial, radial) = {i1}, but {i0} before "
                                f"the rigid motion", key="collinear")
                    return
                # "up to a rotation about that axis": ONE proper rotation for all the atoms of the anchor -- their mutual
                # distances and the signed areas they span about the axis are kept (a mirror image keeps the former only)
                for k2 in range(k + 1, m):
                    if assignment[k2] != a:
                        continue
                    d1 = float(np.linalg.norm(rpos[k] - rpos[k2]))
                    d0 = float(np.linalg.norm(base_result[k] - base_result[k2]))
                    v1 = float(np.dot(u1, np.cross(rpos[k] - pos[a], rpos[k2] - pos[a])))
                    v0 = float(np.dot(u0, np.cross(base_result[k] - ref_pos0[a], base_result[k2] - ref_pos0[a])))
                    size = max(1.0, i0[0] * axis_invariants(base_result[k2], ref_pos0[a], u0)[0])
                    if abs(d1 - d0) > tol8 or abs(v1 - v0) > tol8 * size:
                        ctx.violate("C02", "collinear-not-one-rotation",
                                    f"collinear anchor {a}: target atoms {k},{k2} are {d1!r} nm apart and span a signed area of "
                                    f"{v1!r} about the axis; {d0!r} and {v0!r} before the rigid motion (not one rotation about "
                                    f"the axis)", key="collinear")
                        return

    def check_c03_shape(pos, rpos):
        if small:
            # one anchor (the first atom) for every target atom: distances to it and all mutual distances scale by s,
            # whatever the completion of the frame was
            tol = 1e-9 * max(1.0, float(np.max(np.abs(tgt_pos0 - ref_pos0[0]))))
            for k in range(m):
                want = scale * np.linalg.norm(tgt_pos0[k] - ref_pos0[0])
                got = np.linalg.norm(rpos[k] - pos[0])
                if abs(got - want) > tol:
                    ctx.violate("C03", "anchor-distance", f"{n}-atom reference: target atom {k} lies {got!r} nm from the first "
                                                          f"reference atom; s * construction distance is {want!r}", key="small")
                    return
            for x in range(m):
                for y in range(x + 1, m):
                    want = scale * np.linalg.norm(tgt_pos0[x] - tgt_pos0[y])
                    got = np.linalg.norm(rpos[x] - rpos[y])
                    if abs(got - want) > tol:
                        ctx.violate("C03", "intra-anchor-distance", f"{n}-atom reference: target atoms {x},{y} are {got!r} nm apart; "
                                                                    f"s * construction distance is {want!r} (the mapped molecule "
                                                                    f"is not one rigid image)", key="small")
                        return
            return
        if assignment is None:
            return
        known = [k for k in range(m) if assignment[k] is not None]
        tol = 1e-9 * max([1.0] + [float(np.max(np.abs(tgt_pos0[k] - ref_pos0[assignment[k]]))) for k in known])
        for k in known:
            a = assignment[k]
            want = scale * np.linalg.norm(tgt_pos0[k] - ref_pos0[a])
            got = np.linalg.norm(rpos[k] - pos[a])
            if abs(got - want) > tol:
                ctx.violate("C03", "anchor-distance", f"target atom {k} lies {got!r} nm from its anchor {a}; s * construction "
                                                      f"distance is {want!r}", key=trace["info"]["geometry"])
                return
        groups = {}
        for k, a in enumerate(assignment):
            if a is not None:
                groups.setdefault(a, []).append(k)
        for a, ks in groups.items():
            for x in range(len(ks)):
                for y in range(x + 1, len(ks)):
                    want = scale * np.linalg.norm(tgt_pos0[ks[x]] - tgt_pos0[ks[y]])
                    got = np.linalg.norm(rpos[ks[x]] - rpos[ks[y]])
                    if abs(got - want) > tol:
                        ctx.violate("C03", "intra-anchor-distance", f"target atoms {ks[x]},{ks[y]} share anchor {a}: "
                                                                    f"distance {got!r}, s * construction distance {want!r}",
                                    key=trace["info"]["geometry"])
                        return

    def check_c03_locality(op, pos, rpos):
        if small or assignment is None:
            return
        base = None
        for (j, apos, rp) in reversed(results):
            if np.array_equal(apos, np.array(op["base"], dtype=float)):
                base = rp
                break
        if base is None:
            return
        kk = op["k"]
        ctx.probe("locality_checked")
        for t, a in enumerate(assignment):
            if a is None or kk == a or kk in model.neigh[a]:
                continue
            dev = float(np.max(np.abs(rpos[t] - base[t])))
            if dev > 1e-12 * max(1.0, float(np.max(np.abs(pos)))):
                ctx.violate("C03", "not-local", f"displacing reference atom {kk} moved target atom {t} (anchor {a}, frame "
                                                f"neighbours {model.neigh[a]}) by {dev:.3e} nm")
                return

    for i, op in enumerate(trace["ops"]):
        ctx.op_index = i
        kind = op["op"]
        if kind == "call":
            do_call(op, i)
        elif kind == "repeat":
            src = trace["ops"][op["of"]] if op["of"] < len(trace["ops"]) else None
            if src is not None and src.get("op") == "call":
                if op.get("jitter") and src["conf"] not in ("construction_object", "argument_again"):
                    import random as _r
                    jr = _r.Random(op["jseed"])
                    base = conf_positions(src)
                    moved = base + np.array([[jr.uniform(-1, 1) * op["jitter"] for _ in range(3)] for _ in range(len(base))])
                    if small or _anchors_generic(moved, ref_spec["edges"], n, 2e-3):
                        do_call({"op": "call", "conf": "deformed", "positions": moved.tolist()}, i)
                        ctx.probe("almost_the_same_argument_again")
                    else:
                        # a jittered collinear anchor is neither collinear nor generic (ill-conditioned): not judged
                        do_call(src, i)
                else:
                    do_call(src, i)
        elif kind == "reject":
            bad = make_rejected(op["kind"], ref_spec, ref_pos0)
            rejected_objects.append(bad)
            try:
                themap(bad)
            except TypeError:
                ctx.op("reject:" + op["kind"], "TypeError")
                ctx.fault("rejected_argument")
                pending_reject = True
            except Exception as e:
                ctx.op("reject:" + op["kind"], type(e).__name__)
                ctx.violate(P4, "reject-wrong-exception", f"argument of kind '{op['kind']}' raised {type(e).__name__} "
                                                          f"instead of TypeError: {e}", key=op["kind"])
                pending_reject = True
            else:
                ctx.op("reject:" + op["kind"], "accepted")
                ctx.violate(P4, "reject-accepted", f"argument of kind '{op['kind']}' was accepted", key=op["kind"])
        elif kind == "rebond":
            bi, bj = op["i"], op["j"]
            if small or any(sorted(e) == sorted((bi, bj)) for e in ref_spec["edges"]):
                continue
            shared_top.atoms[bi].connect(shared_top.atoms[bj])
            ref_spec = dict(ref_spec, edges=[list(e) for e in ref_spec["edges"]] + [[bi, bj]])
            ref_live = ref_instance(ref_spec["positions"])
            tgt_live = gen.make_molecule(tgt_spec)
            try:
                themap = ExchangeMap(ref_live, tgt_live, scale)
            except Exception as e:
                ctx.violate("C01", "construction-raised", f"ExchangeMap on the edited topology raised {type(e).__name__}: {e}")
                return
            model = XMapModel(ref_pos0, [tuple(e) for e in ref_spec["edges"]], tgt_pos0, scale)
            assignment = None
            assignment_read[0] = False
            if trace.get("eq_early", True):
                read_assignment()
            base_map = fresh_map()
            base_result = np.array(base_map(ref_instance(ref_spec["positions"], own_top=True)).atoms_positions)
            results.clear()
            calls_by_op.clear()
            arguments.clear()        # (instances built on the topology as it was are another species' business now)
            snap_ref_live = snap(ref_live)
            snap_tgt_live = snap(tgt_live)
            ctx.op("rebond", "new-map")
            ctx.probe("topology_edited_then_new_map")
        elif kind == "sibling_map":
            try:
                s_other = op["scale"] if op["scale"] != scale else op["scale"] * 0.5
                if op.get("how") == "copy":
                    # ... or a shallow copy of THIS map (copy.copy) is given another scale factor
                    import copy as _copy
                    twin = _copy.copy(themap)
                    twin.scale_factor = s_other
                    siblings.append(twin)
                    ctx.fault("shallow_copy_of_the_map_rescaled")
                else:
                    siblings.append(ExchangeMap(ref_live, tgt_live, s_other))
                    ctx.fault("second_map_on_the_same_molecules")
            except Exception as e:
                ctx.violate(P4, "construction-raised", f"a second ExchangeMap on the same molecules raised {type(e).__name__}: {e}")
            ctx.op("sibling_map")
        elif kind == "reject_again":
            mols = [b for b in rejected_objects if hasattr(b, "copy") and hasattr(b, "atoms_positions")]
            if not mols:
                continue
            bad = mols[op["pick"] % len(mols)]
            if op.get("copy"):
                bad = bad.copy()
            try:
                themap(bad)
            except TypeError:
                ctx.op("reject_again", "TypeError")
                ctx.fault("rejected_argument_offered_again")
                pending_reject = True
            except Exception as e:
                ctx.op("reject_again", type(e).__name__)
                ctx.violate(P4, "reject-wrong-exception", f"a molecule of another species offered a second time raised "
                                                          f"{type(e).__name__} instead of TypeError: {e}", key="again")
                pending_reject = True
            else:
                ctx.op("reject_again", "accepted")
                ctx.violate(P4, "reject-accepted", "a molecule of another species was rejected the first time and ACCEPTED when "
                                                   "offered again", key="again")
        elif kind == "mutate":
            import random as _r
            mr = _r.Random(op["seed"])
            target = None
            if op["what"] == "construction_ref":
                target = ref_live
            elif op["what"] == "construction_tgt":
                target = tgt_live
            elif op["what"] == "result" and returned:
                target = returned[op["pick"] % len(returned)][0]
            elif op["what"] == "argument" and arguments:
                target = arguments[op["pick"] % len(arguments)][0]
            if target is None:
                continue
            if op["how"] == "inplace":
                # arithmetic IN PLACE on the position array of one atom (atom.position += d): whoever shares that array moves too
                k_ = op["pick"] % len(target)
                a_ = target[k_]
                a_.position += np.array(op["d"])
                if target is ref_live:
                    construction_rigid[0] = False
            elif op["how"] == "move":
                target.move(np.array(op["d"]))
            elif op["how"] == "rotate":
                target.rotate(np.array(op["R"]))
            else:
                if target is ref_live:
                    construction_rigid[0] = False
                target.atoms_positions = np.array([[mr.uniform(-5, 5) for _ in range(3)] for _ in range(len(target))])
            ctx.op("mutate:" + op["what"], op["how"])
            ctx.fault("mutation:" + op["what"])
            # harness-made changes are re-snapshotted; everything else must stay as it was
            if target is ref_live:
                snap_ref_live = snap(ref_live)
            elif target is tgt_live:
                snap_tgt_live = snap(tgt_live)
            for r in returned:
                if r[0] is target:
                    r[1] = snap(target)
            for a_ in arguments:
                if a_[0] is target:
                    a_[1] = snap(target)
    read_assignment()
    # arguments of earlier calls must still be what they were when offered (unless the harness mutated them)
    for a_obj, s0 in arguments:
        d = same_snap(s0, snap(a_obj))
        if d:
            ctx.violate(P4, "earlier-argument-modified", f"the {d} of a molecule that was an argument earlier changed later in "
                                                         f"the history")
            break
    # results handed out earlier must still be what they were when returned (unless the harness mutated them)
    for r, s0, _c in returned:
        d = same_snap(s0, snap(r))
        if d:
            ctx.violate(P4, "earlier-result-modified", f"the {d} of a returned molecule changed later in the history")
            held_no_longer_lawful(r, s0, _c)
            break


def _rigid_fit(A, B):
    """(R, t) with B = A R^T + t when B is a rigid copy of A (residual below 5e-13 relative, proper rotation, A not collinear);
    None otherwise."""
    A = np.asarray(A, dtype=float)
    B = np.asarray(B, dtype=float)
    ca, cb = A.mean(axis=0), B.mean(axis=0)
    H = (A - ca).T @ (B - cb)
    U, S, Vt = np.linalg.svd(H)
    if S[1] < 1e-6 * max(S[0], 1e-300):
        return None                      # collinear: the rotation about the line is not determined
    d = np.sign(np.linalg.det(Vt.T @ U.T))
    R = Vt.T @ np.diag([1.0, 1.0, d]) @ U.T
    t = cb - R @ ca
    res = float(np.max(np.abs(A @ R.T + t - B)))
    # (a rigid copy made by the harness or by the library's move / rotate is exact to a few ulp; the "almost the same
    #  argument" conformations, displaced by 1e-9 nm and more per atom, must NOT pass as rigid copies)
    if d < 0 or res > 5e-13 * max(1.0, float(np.max(np.abs(B)))):
        return None
    return R, t


def _expand_resids(spec, per_res):
    if per_res is None:
        return None
    out = []
    r = -1
    prev = None
    for rid, rn in zip(spec["resids"], spec["resnames"]):
        if (rid, rn) != prev:
            r += 1
            prev = (rid, rn)
        out.append(per_res[min(r, len(per_res) - 1)])
    return out


def _runs(resnames, resids):
    out = []
    prev = None
    for rn, ri in zip(resnames, resids):
        if (rn, ri) != prev:
            out.append(rn)
            prev = (rn, ri)
    return out


def make_rejected(kind, ref_spec, ref_pos0):
    from gaddlemaps.components import Residue, AtomGro
    if kind == "none":
        return None
    if kind == "array":
        return np.array(ref_pos0)
    if kind == "str":
        return "SPEC"
    if kind == "residue":
        return gen.make_residues(ref_spec["atom_names"], ref_spec["resnames"], ref_spec["resids"], ref_pos0)[0]
    if kind == "moleculetop":
        return gen.make_moltop(ref_spec["name"], ref_spec["atom_names"], ref_spec["resnames"], ref_spec["resids"], ref_spec["edges"])
    spec = {k: (list(v) if isinstance(v, list) else v) for k, v in ref_spec.items()}
    if kind == "name":
        spec["name"] = "OTHER"
    elif kind == "atom_name":
        names = list(spec["atom_names"])
        names[len(names) // 2] = "ZZ" + names[len(names) // 2][:2]
        spec["atom_names"] = names
    elif kind == "permuted":
        # the same atoms in another order (two atoms with different names swapped)
        names = list(spec["atom_names"])
        pairs = [(i, j) for i in range(len(names)) for j in range(i + 1, len(names)) if names[i] != names[j]]
        if not pairs:
            spec["name"] = "OTHER"
        else:
            i, j = pairs[len(pairs) // 2]
            names[i], names[j] = names[j], names[i]
            spec["atom_names"] = names
    elif kind == "fewer":
        n = len(spec["atom_names"])
        if n < 2 or len(set(zip(spec["resnames"][:-1], spec["resids"][:-1]))) != len(set(zip(spec["resnames"], spec["resids"]))):
            spec["name"] = "OTHER"
        else:
            for key in ("atom_names", "resnames", "resids", "positions"):
                spec[key] = list(spec[key])[:-1]
            spec["edges"] = [list(e) for e in spec["edges"] if n - 1 not in e]
    elif kind == "residue_relabelled":
        # the same atoms under other residue labels: where the residue names begin with a digit, that digit moves from the
        # name to the end of the residue number (residue 1 "2AB" -> residue 12 "AB": number and name written one after the
        # other read the same); otherwise the first residue simply gets another name
        rn = list(spec["resnames"])
        if all(x[:1].isdigit() and len(x) > 1 for x in rn):
            spec["resids"] = [int(str(ri) + x[0]) for ri, x in zip(spec["resids"], rn)]
            spec["resnames"] = [x[1:] for x in rn]
        else:
            first = rn[0]
            spec["resnames"] = [("Q" + x[1:] if x == first else x) for x in rn]
    elif kind == "extra_atom":
        n = len(spec["atom_names"])
        spec["atom_names"] = list(spec["atom_names"]) + ["XQ1"]
        spec["resnames"] = list(spec["resnames"]) + [spec["resnames"][-1]]
        spec["resids"] = list(spec["resids"]) + [spec["resids"][-1]]
        spec["edges"] = [list(e) for e in spec["edges"]] + [[n - 1, n]]
        spec["positions"] = [list(p) for p in spec["positions"]] + [[9.0, 9.0, 9.0]]
    return gen.make_molecule(spec)
