"""Engine `pipeline` (C05): Manager life-cycle histories on the simulated disk.

System + Manager + ExchangeMap + GroFile writer run for real on generated multi-species
worlds (real files, real parsers, file seam on).  The history is the order of add_end_molecule /
calculate_exchange_maps / align_molecules / extrapolate_system calls, including extrapolations
requested too early and onto already existing outputs."""
import os

import numpy as np

from sim import gen, world as W
from sim.models import axis_invariants, XMapModel
from sim.seams import FileSeam, RandomSeam, image_after

NAME = "pipeline"
P = "C05"


def generate(rng, tier, focus):
    if tier == "thorough" and rng.random() < 0.01:
        return {"shipped": True, "scale": rng.choice([0.5, 1.0, rng.uniform(0.1, 1.5)]), "np_seed": rng.randrange(2 ** 32),
                "ops": []}
    world = W.gen_world(rng, tier)
    n_sp = len(world["species"])
    # the documented manual route: a species gets an end molecule of ANOTHER moleculetype name (POPC mapped onto VTE), which
    # only the attribute path accepts
    renamed = set()
    for s_ in range(n_sp):
        if rng.random() < 0.12:
            world["species"][s_]["end"]["name"] = world["species"][s_]["name"] + "X"
            renamed.add(s_)
    subset = [s for s in range(n_sp) if rng.random() < 0.75]
    rng.shuffle(subset)
    ops = []
    attached = set()
    mapped = set()
    pending = list(subset)
    # optional premature extrapolation before anything is attached
    if rng.random() < 0.3:
        ops.append({"op": "extrapolate", "out": "out0.gro"})
    while pending:
        k = rng.randint(1, len(pending))
        for s in pending[:k]:
            ops.append({"op": "add_end", "species": s,
                        "via": "attribute" if s in renamed else rng.choice(["files", "files", "object", "attribute"])})
            attached.add(s)
        pending = pending[k:]
        if rng.random() < 0.15 and attached:
            # the documented attribute path also detaches: end = None (and possibly attaches again later)
            victim = rng.choice(sorted(attached))
            ops.append({"op": "detach", "species": victim})
            attached.discard(victim)
            if rng.random() < 0.5:
                pending.append(victim)
        c = rng.random()
        if c < 0.25:
            ops.append({"op": "extrapolate", "out": rng.choice(["out0.gro", "out1.gro"])})     # end attached after the last calc
        if rng.random() < 0.25:
            ops.append({"op": "align", "steps_factor": rng.randint(1, 3)})
        ops.append({"op": "calc_maps", "scale": rng.choice([0.5, 1.0, rng.uniform(0.05, 2.0)])})
        if rng.random() < 0.2 and attached:
            # the overlap is adjusted by hand on the live molecule, and the maps are built again WITH THE SAME SCALE
            ops.append({"op": "nudge", "species": rng.choice(sorted(attached)), "d": gen.rvec(rng, 0.3),
                        "which": rng.choice(["end", "end", "start"])})
            ops.append({"op": "calc_maps", "scale": ops[-2]["scale"]})
        for _ in range(rng.choice([0, 1, 1, 2])):
            ops.append({"op": "extrapolate", "out": rng.choice(["out0.gro", "out1.gro", "out2.gro"])})
    if not any(o["op"] == "extrapolate" for o in ops):
        ops.append({"op": "extrapolate", "out": "out0.gro"})
    if rng.random() < 0.4:
        ops.append({"op": "extrapolate", "out": ops[-1].get("out", "out0.gro")})          # same state, same path again
    return {"world": world, "ops": ops, "np_seed": rng.randrange(2 ** 32), "preexisting": rng.random() < 0.3}


def abbreviate(trace):
    if trace.get("shipped"):
        return trace
    w = trace["world"]
    return {"species": [{"name": s["name"], "n_start": len(s["start"]["positions"]), "n_end": len(s["end"]["positions"]),
                         "n_res": len(set(s["start"]["resids"]))} for s in w["species"]],
            "file_order": [i["species"] for i in w["instances"]], "n_lines": len(w["lines"]), "box": w["box"], "title": w["title"],
            "ops": trace["ops"]}


def parse_gro_image(text):
    lines = text.split("\n")
    title = lines[0]
    n = int(lines[1])
    recs = []
    width = len(lines[2]) if n else 44
    if width not in (44, 68):
        raise ValueError("atom line of %d characters: %r" % (width, lines[2]))
    for l in lines[2:2 + n]:
        if len(l) != width:
            raise ValueError("atom lines of %d and %d characters in one file: %r" % (width, len(l), l))
        recs.append((int(l[0:5]), l[5:10].strip(), l[10:15].strip(), int(l[15:20]),
                     float(l[20:28]), float(l[28:36]), float(l[36:44])))
        if width == 68:
            [float(l[44 + 8 * k:52 + 8 * k]) for k in range(3)]
    nums = [float(x) for x in lines[2 + n].split()]
    return title, n, recs, W.box_matrix(nums), lines[3 + n:]


def execute(trace, ctx):
    from gaddlemaps import Manager, Alignment
    from gaddlemaps.components import Molecule
    if trace.get("shipped"):
        return execute_shipped(trace, ctx)
    world = trace["world"]
    species = world["species"]
    d = ctx.tmpdir()
    paths = W.write_world(d, world)
    seam = FileSeam(ctx)
    rseam = RandomSeam(ctx, trace["np_seed"])
    old_sf = Alignment.STEPS_FACTOR
    with seam, rseam:
        try:
            if trace["np_seed"] % 5 == 1:
                # the system is populated one topology OBJECT at a time, in another order than the file's
                from gaddlemaps.components import System, MoleculeTop
                import random as _r
                syst = System(paths["system"])
                order = list(range(len(paths["species"])))
                _r.Random(trace["np_seed"]).shuffle(order)
                for k in order:
                    syst.add_molecule_top(MoleculeTop(paths["species"][k]["top_start"]))
                manager = Manager(syst)
                ctx.probe("system_populated_by_add_molecule_top")
            elif trace["np_seed"] % 3 == 0:
                from gaddlemaps.components import System
                manager = Manager(System(paths["system"], *[p["top_start"] for p in paths["species"]]))
            else:
                manager = Manager.from_files(paths["system"], *[p["top_start"] for p in paths["species"]])
        except Exception as e:
            ctx.op("load", "raised")
            ctx.violate(P, "load-raised", f"Manager.from_files raised {type(e).__name__}: {e}", key=type(e).__name__)
            return
        ctx.op("load", "ok")
        if trace["np_seed"] % 6 == 4:
            # the input is renamed away after loading and another system (same layout, every coordinate shifted, another
            # title) is written under its name: the manager keeps working on the system it loaded
            os.rename(paths["system"], paths["system"][:-4] + "_loaded.gro")
            ls_ = W.system_text(world).split("\n")
            n_at_ = int(ls_[1])
            ls_[0] = "another system altogether"
            for k_ in range(n_at_):
                l_ = ls_[2 + k_]
                ls_[2 + k_] = l_[:20] + "%8.3f%8.3f%8.3f" % tuple(float(l_[20 + 8 * q:28 + 8 * q]) + 1.0 for q in range(3)) + l_[44:]
            with open(paths["system"], "w") as f_:
                f_.write("\n".join(ls_))
            ctx.fault("input_replaced_under_its_name_after_loading")
        attached = {}
        mapped_at = {}          # species -> True when its map was built after its (latest) end molecule was attached
        last_success = {}       # out path -> (state key, bytes)
        scale_of = {}           # species -> scale of its latest map
        law_valid = [False]     # the live molecules are where they were when the maps were built
        if trace.get("preexisting"):
            with open(os.path.join(d, "out1.gro"), "w") as f:
                f.write("previous content\n")
        try:
            for i, op in enumerate(trace["ops"]):
                ctx.op_index = i
                ctx.steps += 1
                kind = op["op"]
                if kind == "add_end":
                    s = op["species"]
                    if s in attached:
                        continue          # not a scenario of the generator (can appear while shrinking)
                    p = paths["species"][s]
                    if op["via"] in ("files", "attribute"):
                        mol = Molecule.from_files(p["gro_end"], p["top_end"])
                    else:
                        mol = gen.make_molecule(species[s]["end"])
                    if op["via"] == "object" and i % 2:
                        manager.add_end_molecules(mol)               # the plural entry point
                    elif op["via"] == "attribute":
                        manager.molecule_correspondence[species[s]["name"]].end = mol      # as the docstring and the CLI do
                        ctx.probe("end_attached_through_attribute")
                        if mol.name != species[s]["name"]:
                            ctx.probe("end_molecule_of_another_name")
                    else:
                        manager.add_end_molecule(mol)
                    attached[s] = True
                    # a species attached for the first time has no map; one that had a map, was detached and is attached
                    # again may or may not have kept it (the statement does not say): None = either outcome is in order
                    mapped_at[s] = None if (s in mapped_at and mapped_at[s] is not False) else False
                    ctx.op(kind, op["via"])
                elif kind == "detach":
                    s = op["species"]
                    if s in attached:
                        manager.molecule_correspondence[species[s]["name"]].end = None
                        del attached[s]
                        ctx.probe("end_detached")
                    ctx.op(kind)
                elif kind == "nudge":
                    s = op["species"]
                    if s in attached:
                        ali = manager.molecule_correspondence[species[s]["name"]]
                        getattr(ali, op["which"]).move(np.array(op["d"]))
                        law_valid[0] = False
                        ctx.probe("live_molecule_moved_between_map_builds")
                    ctx.op(kind)
                elif kind == "align":
                    Alignment.STEPS_FACTOR = op["steps_factor"]
                    try:
                        law_valid[0] = False
                        manager.align_molecules()
                    finally:
                        Alignment.STEPS_FACTOR = old_sf
                    ctx.op(kind)
                elif kind == "calc_maps":
                    manager.calculate_exchange_maps(op["scale"])
                    for s in attached:
                        mapped_at[s] = True
                        scale_of[s] = op["scale"]
                    law_valid[0] = True
                    check_scale_law(ctx, manager, species, attached, op["scale"])
                    ctx.op(kind)
                elif kind == "extrapolate":
                    out = os.path.join(d, op["out"])
                    if not attached or any(mapped_at[s] is False for s in attached):
                        ready = False
                    elif any(mapped_at[s] is None for s in attached):
                        ready = None
                    else:
                        ready = True
                    ok = do_extrapolate(ctx, trace, manager, seam, out, ready, attached, world, last_success, i)
                    if ok and ready and law_valid[0]:
                        # ... and the maps are still the maps of the requested scale AFTER the extrapolation used them
                        for s in sorted(attached):
                            check_scale_law(ctx, manager, species, {s: True}, scale_of[s], when="after extrapolation")
        except Exception as e:
            import traceback
            ctx.violate(P, "lifecycle-raised", f"operation {trace['ops'][ctx.op_index]} raised {type(e).__name__}: {e}\n"
                                               f"{traceback.format_exc()[-700:]}", key=trace["ops"][ctx.op_index]["op"])
            return
        finally:
            Alignment.STEPS_FACTOR = old_sf
    ctx.nontrivial = True


def check_scale_law(ctx, manager, species, attached, scale, when="after calculate_exchange_maps"):
    """The map the Manager has just built for a species is the map OF THE REQUESTED SCALE: applied to the alignment's own
    start molecule it puts every end atom at a + s (p - a) (C01's law, evaluated with an independent nearest-anchor
    computation).  Without this the per-molecule oracle below (output = the species' map applied to the input molecule)
    could not notice a scale that never reached the map."""
    for s in sorted(attached):
        sp = species[s]
        if len(sp["start"]["positions"]) < 3:
            continue
        ali = manager.molecule_correspondence[sp["name"]]
        S = np.array(ali.start.atoms_positions)
        E = np.array(ali.end.atoms_positions)
        model = XMapModel(S, sp["start"]["edges"], E, scale)
        if not model.anchors:
            continue
        got = np.array(ali.exchange_map(ali.start).atoms_positions)
        if got.shape != E.shape:
            ctx.violate(P, "map-scale-law", f"species {sp['name']}: the map returns {got.shape[0]} atoms, the end molecule has {E.shape[0]}")
            continue
        for t in range(len(E)):
            tied = model.tied_anchors(t)
            if any(model.anchor_sin(a) < 2e-3 for a in tied):
                continue
            ctx.probe("scale_law_checked")
            if not any(float(np.max(np.abs(got[t] - (S[a] + scale * (E[t] - S[a]))))) <= 1e-8 for a in tied):
                a = tied[0]
                ctx.violate(P, "map-scale-law", f"species {sp['name']}, scale {scale}, {when}: the species' map puts end "
                                                f"atom {t} at {got[t].tolist()}, anchor + s (p - anchor) = "
                                                f"{(S[a] + scale * (E[t] - S[a])).tolist()}", key="scale")
                break


def do_extrapolate(ctx, trace, manager, seam, out, ready, attached, world, last_success, op_i):
    species = world["species"]
    existed = os.path.exists(out)
    before = open(out, "rb").read() if existed else None
    n_files_before = len(seam.files)
    bare = trace["np_seed"] % 4 == 3
    old_cwd = os.getcwd()
    try:
        if bare:
            # the output is named by a bare file name, relative to the working directory (no directory component at all)
            os.chdir(os.path.dirname(out))
            manager.extrapolate_system(os.path.basename(out))
            ctx.probe("output_named_by_a_bare_file_name")
        else:
            manager.extrapolate_system(out)
        raised = None
    except Exception as e:
        raised = e
    finally:
        os.chdir(old_cwd)
    if ready is None:
        ctx.probe("extrapolation_with_map_from_before_detach")
        if raised is not None:
            ctx.op("extrapolate", "refused-after-reattach")
            return False
    elif not ready:
        ctx.fault("premature_extrapolation")
        if raised is None:
            ctx.op("extrapolate", "premature-accepted")
            ctx.violate(P, "premature-extrapolation-accepted", "extrapolate_system succeeded although an attached species has no "
                                                               "exchange map yet (or nothing is attached)")
            return
        opened = [f for f in seam.files[n_files_before:] if os.path.realpath(f[0]) == os.path.realpath(out) and "r" not in f[1]]
        if opened:
            ctx.violate(P, "premature-extrapolation-opened-output", "a refused extrapolation opened the output file for writing")
        now = open(out, "rb").read() if os.path.exists(out) else None
        if now != before:
            ctx.violate(P, "premature-extrapolation-wrote", "a refused extrapolation created or changed the output file")
        ctx.op("extrapolate", "premature-" + type(raised).__name__)
        return False
    if raised is not None:
        ctx.op("extrapolate", "raised")
        ctx.violate(P, "extrapolation-raised", f"extrapolate_system raised {type(raised).__name__}: {raised}", key=type(raised).__name__)
        return
    if existed:
        ctx.probe("overwrote_existing_output")
    fid = seam.fid_of(out, "w")
    if fid is None:
        ctx.violate(P, "output-not-written", "extrapolate_system returned without opening the output for writing")
        return
    ops = seam.ops_of(fid)
    image = image_after(ops, len(ops))
    with open(out, "rb") as f:
        disk = f.read()
    if disk != image:
        from sim.core import HarnessError
        raise HarnessError("file seam image differs from the output on disk")
    text = image.decode()
    try:
        title, n, recs, box, rest = parse_gro_image(text)
    except Exception as e:
        ctx.violate(P, "output-unparseable", f"the written file is not a well-formed .gro: {e!r}")
        return
    complete = set(attached)
    todo = [inst for inst in world["instances"] if inst["species"] in complete]
    want_n = sum(len(species[i["species"]]["end"]["positions"]) for i in todo)
    if n != want_n or len(recs) != want_n:
        ctx.violate(P, "atom-count", f"{n} atoms written (count line) / {len(recs)} records; expected {want_n} = sum of target sizes "
                                     f"over {len(todo)} molecules of species {sorted(complete)}")
        return
    if [x for x in rest if x != ""] or len(rest) != 1:
        ctx.violate(P, "trailing-lines", f"the output continues after its box line: {rest[:3]!r}")
    if title != world["title"]:
        ctx.violate(P, "title", f"title {title!r}, input has {world['title']!r}")
    with_vel = [bool(species[s]["end"].get("velocities")) for s in complete]
    if any(with_vel):
        ctx.probe("end_molecule_with_velocities" + ("" if all(with_vel) else "_mixed"))
    wb = W.box_matrix(world["box"])
    if np.max(np.abs(box - wb)) > 5e-6 * (1 + 1e-6) + 1e-9:
        ctx.violate(P, "box", f"box {box.tolist()} differs from the input's {wb.tolist()}")
    if [r[3] for r in recs] != list(range(1, want_n + 1)):
        bad = next(k for k, r in enumerate(recs) if r[3] != k + 1)
        ctx.violate(P, "atom-numbers", f"atom numbers do not run 1..{want_n}: record {bad} carries {recs[bad][3]}")
    # per molecule: identity, order, residue numbers, coordinates
    sys_mols = {(mm.name, tuple(mm.atoms_ids)): mm for mm in manager.system}
    pos = 0
    for k, inst in enumerate(todo):
        sp = species[inst["species"]]
        e = sp["end"]
        m = len(e["positions"])
        chunk = recs[pos:pos + m]
        pos += m
        if [r[2] for r in chunk] != e["atom_names"] or [r[1] for r in chunk] != e["resnames"]:
            ctx.violate(P, "molecule-order-or-names", f"output molecule {k}: atoms {[r[2] for r in chunk]} / residues "
                                                      f"{sorted(set(r[1] for r in chunk))}, expected a {sp['name']} target "
                                                      f"({e['atom_names']})")
            return
        # residue numbers of the input molecule, residue by residue
        want_resids = []
        r = -1
        prev = None
        for rn, ri in zip(e["resnames"], e["resids"]):
            if (rn, ri) != prev:
                r += 1
                prev = (rn, ri)
            want_resids.append(inst["resids"][r])
        if [x[0] for x in chunk] != want_resids:
            ctx.violate(P, "residue-numbers", f"output molecule {k} ({sp['name']}) carries residue numbers "
                                              f"{sorted(set(x[0] for x in chunk))}, its input molecule has {inst['resids']}")
            return
        # coordinates: the species' map applied to this input molecule
        in_mol = sys_mols.get((sp["name"], tuple(inst["atomids"])))
        if in_mol is None:
            ctx.violate(P, "input-molecule-missing", f"the loaded system does not contain input molecule {k}")
            return
        try:
            mapped = manager.molecule_correspondence[sp["name"]].exchange_map(in_mol)
        except Exception as ex:
            ctx.violate(P, "map-raised", f"the species' exchange map raised on input molecule {k}: {ex!r}")
            return
        mp = np.array(mapped.atoms_positions)
        got = np.array([[x[4], x[5], x[6]] for x in chunk])
        n_ref = len(sp["start"]["positions"])
        if n_ref >= 3:
            dev = float(np.max(np.abs(got - mp)))
            if dev > 0.0005 + 1e-9:
                ctx.violate(P, "coordinates", f"output molecule {k} ({sp['name']}) differs from its species' map applied to the "
                                              f"input molecule by {dev:.4f} nm", key="ref>=3")
                return
        else:
            ctx.probe("small_reference_species")
            rp = np.array(inst["positions"])
            # "up to the rotation left free": ONE rotation for the whole molecule -- its shape is the map's
            Dg = np.linalg.norm(got[:, None] - got[None, :], axis=-1)
            Dm = np.linalg.norm(mp[:, None] - mp[None, :], axis=-1)
            if m > 1 and float(np.max(np.abs(Dg - Dm))) > 0.002:
                ctx.violate(P, "coordinates-small-reference", f"output molecule {k} ({sp['name']}, {n_ref}-atom reference): its "
                                                              f"interatomic distances differ from those of the species' map result "
                                                              f"by {float(np.max(np.abs(Dg - Dm))):.4f} nm (not one rigid image)",
                            key=f"ref{n_ref}-shape")
                return
            for a in range(m):
                if n_ref == 1:
                    d1 = np.linalg.norm(got[a] - rp[0])
                    d0 = np.linalg.norm(mp[a] - rp[0])
                    ok = abs(d1 - d0) <= 0.001
                    what = f"distance {d1:.4f} vs {d0:.4f}"
                else:
                    u = (rp[1] - rp[0]) / np.linalg.norm(rp[1] - rp[0])
                    i1 = axis_invariants(got[a], rp[0], u)
                    i0 = axis_invariants(mp[a], rp[0], u)
                    ok = max(abs(x - y) for x, y in zip(i1, i0)) <= 0.001
                    what = f"(distance, axial, radial) {tuple(round(x, 4) for x in i1)} vs {tuple(round(x, 4) for x in i0)}"
                if not ok:
                    ctx.violate(P, "coordinates-small-reference", f"output molecule {k} ({sp['name']}, {n_ref}-atom reference) "
                                                                  f"atom {a}: {what}", key=f"ref{n_ref}")
                    return
    # through the library's own reader as well
    try:
        from gaddlemaps.parsers import GroFile
        r = GroFile(out)
        lib = r.readlines()
        r.close()
        if len(lib) != want_n:
            ctx.violate(P, "reader-count", f"GroFile reads {len(lib)} atoms from the output, expected {want_n}")
    except Exception as ex:
        ctx.violate(P, "reader-raised", f"the output cannot be read back: {ex!r}")
    # repeated extrapolation with unchanged state: byte-identical (references of >= 3 atoms only)
    state_key = (tuple(sorted(complete)), op_i and tuple(o["op"] for o in trace["ops"][:op_i] if o["op"] != "extrapolate"))
    all_big = all(len(species[s]["start"]["positions"]) >= 3 for s in complete)
    prev = last_success.get("any")
    if prev is not None and prev[0] == state_key and all_big:
        ctx.probe("repeated_extrapolation")
        if prev[1] != image:
            ctx.violate(P, "not-repeatable", "two extrapolations with unchanged state wrote different files")
    last_success["any"] = (state_key, image)
    ctx.op("extrapolate", f"ok:{len(todo)}")
    ctx.probe("successful_extrapolation")
    ok_ret = True
    if len(complete) < len(species):
        ctx.probe("unmapped_species_skipped")
    return ok_ret


def execute_shipped(trace, ctx):
    """The shipped BMIM/BF4 box (600 molecules) with the same oracles (thorough tier)."""
    import gaddlemaps
    from gaddlemaps import Manager
    from gaddlemaps.components import Molecule
    D = gaddlemaps.DATA_FILES_PATH
    d = ctx.tmpdir()
    seam = FileSeam(ctx)
    with seam, RandomSeam(ctx, trace["np_seed"]):
        manager = Manager.from_files(D["system_bmimbf4_cg.gro"], D["BMIM_CG.itp"], D["BF4_CG.itp"])
        manager.add_end_molecule(Molecule.from_files(D["BMIM_AA.gro"], D["BMIM_AA.itp"]))
        manager.add_end_molecule(Molecule.from_files(D["BF4_AA.gro"], D["BF4_AA.itp"]))
        out = os.path.join(d, "mapped.gro")
        try:
            manager.extrapolate_system(out)
        except Exception:
            ctx.fault("premature_extrapolation")
            if os.path.exists(out):
                ctx.violate(P, "premature-extrapolation-wrote", "a refused extrapolation created the output file")
        else:
            ctx.violate(P, "premature-extrapolation-accepted", "extrapolation before calculate_exchange_maps succeeded")
            return
        manager.calculate_exchange_maps(trace["scale"])
        manager.extrapolate_system(out)
        fid = seam.fid_of(out, "w")
        text = image_after(seam.ops_of(fid), len(seam.ops_of(fid))).decode()
        title, n, recs, box, rest = parse_gro_image(text)
        mols = list(manager.system)
        sizes = {"BMIM": 25, "BF4": 5}
        want_n = sum(sizes[m.name] for m in mols)
        if n != want_n or len(recs) != want_n:
            ctx.violate(P, "atom-count", f"shipped box: {n} atoms written, expected {want_n}")
            return
        if [r[3] for r in recs] != [(k % 99999) + 1 if k >= 99999 else k + 1 for k in range(want_n)]:
            ctx.violate(P, "atom-numbers", "shipped box: atom numbers do not run consecutively from 1")
        if title != manager.system.system_gro.comment_line.rstrip("\n"):
            ctx.violate(P, "title", "shipped box: title not copied")
        if np.max(np.abs(box - manager.system.system_gro.box_matrix)) > 5e-6 + 1e-9:
            ctx.violate(P, "box", "shipped box: box not copied")
        pos = 0
        for k, m in enumerate(mols):
            sz = sizes[m.name]
            chunk = recs[pos:pos + sz]
            pos += sz
            mapped = manager.molecule_correspondence[m.name].exchange_map(m)
            got = np.array([[x[4], x[5], x[6]] for x in chunk])
            if [x[2] for x in chunk] != [a.name for a in mapped]:
                ctx.violate(P, "molecule-order-or-names", f"shipped box: output molecule {k} is not a {m.name} target")
                return
            if set(x[0] for x in chunk) != set(m.resids):
                ctx.violate(P, "residue-numbers", f"shipped box: output molecule {k} has residue numbers "
                                                  f"{sorted(set(x[0] for x in chunk))}, input {m.resids}")
                return
            mp = np.array(mapped.atoms_positions)
            if len(m) >= 3:
                if float(np.max(np.abs(got - mp))) > 0.0005 + 1e-9:
                    ctx.violate(P, "coordinates", f"shipped box: output molecule {k} ({m.name}) differs from map(input molecule)")
                    return
            else:
                # one-bead reference (BF4): the frame is completed at random on every call; only the distance to the
                # bead is determined (C02)
                rp0 = np.array(m.atoms_positions)[0]
                d1 = np.linalg.norm(got - rp0, axis=1)
                d0 = np.linalg.norm(mp - rp0, axis=1)
                if float(np.max(np.abs(d1 - d0))) > 0.001:
                    ctx.violate(P, "coordinates-small-reference", f"shipped box: output molecule {k} ({m.name}): distances to the "
                                                                  f"bead {d1.round(4).tolist()} vs {d0.round(4).tolist()}")
                    return
    ctx.probe("shipped_box")
    ctx.nontrivial = True
    ctx.op("shipped", "ok")
