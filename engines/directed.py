"""Engine `directed` (directed halves of C07, C08, C17): workloads fed to the same monitors the
simulated Monte-Carlo / exchange-map runs use.  These are pure functions of their input: the
harness contributes seeded generation (or enumeration by run index), minimisation and replay."""
import math

import numpy as np

from sim import gen
from sim.models import naive_chi2, fast_chi2
from sim.seams import RandomSeam, patched
from engines.mc import check_move, check_displacement, check_rotation, table_snapshot, table_unchanged
from engines.xmap import FrameMonitor, collinear_positions

NAME = "directed"
USES_INDEX = True

# ---- enumeration of labelled trees (Pruefer sequences) -------------------------------------------

TREE_COUNTS = {2: 1, 3: 3, 4: 16, 5: 125, 6: 1296, 7: 16807}
BATCH = 12


def tree_by_index(n, idx):
    if n == 2:
        return [(0, 1)]
    seq = []
    for _ in range(n - 2):
        seq.append(idx % n)
        idx //= n
    return gen.prufer_to_edges(seq)


def enum_plan(tier):
    sizes = [2, 3, 4, 5, 6] + ([7] if tier == "thorough" else [])
    plan = []
    for n in sizes:
        for start in range(0, TREE_COUNTS[n], BATCH):
            plan.append((n, start, min(TREE_COUNTS[n], start + BATCH)))
    return plan


def generate(rng, tier, focus, k=None):
    if focus == "C07":
        plan = enum_plan(tier)
        if k is not None and k < len(plan):
            n, a, b = plan[k]
            return {"focus": focus, "mode": "enum_trees", "n": n, "first": a, "last": b, "seed": rng.randrange(2 ** 31)}
        n = rng.randint(2, 60)
        cyc = rng.random() < 0.5
        edges = gen.random_tree(rng, n)
        if cyc and n >= 3:
            edges = gen.add_cycles(rng, n, edges, rng.randint(1, 5))
        return {"focus": focus, "mode": "random_graph", "n": n, "edges": [list(e) for e in edges],
                "positions": gen.grow_positions(rng, n, edges, rng.choice([0.1, 0.15, 1.0])),
                "table": rng.choice(["agree", "agree", "perturbed"]), "sigma_scale": rng.choice([0.5, rng.uniform(0.05, 3.0)]),
                "seed": rng.randrange(2 ** 31), "np_seed": rng.randrange(2 ** 32)}
    if focus == "C08":
        nf, nm = rng.randint(1, 40), rng.randint(1, 25)
        r = rng.random()
        if r < 0.2:
            restr = []
        elif r < 0.45:
            restr = [[rng.randrange(nf), rng.randrange(nm)] for _ in range(rng.randint(1, 5))]
        elif r < 0.6:
            i = rng.randrange(nf)
            restr = [[i, rng.randrange(nm)] for _ in range(rng.randint(2, 4))]                  # duplicated fixed atom
        elif r < 0.7:
            p = [rng.randrange(nf), rng.randrange(nm)]
            restr = [p, list(p), [rng.randrange(nf), rng.randrange(nm)]]                           # duplicated pair
        else:
            restr = [[i, rng.randrange(nm)] for i in range(nf)]                                    # every fixed atom restrained
            rng.shuffle(restr)
            if rng.random() < 0.4:
                restr += [list(rng.choice(restr)) for _ in range(2)]
        return {"focus": focus, "mode": "chi2", "nf": nf, "nm": nm, "restraints": restr, "seed": rng.randrange(2 ** 31),
                "spread": rng.choice([0.3, 2.0, 30.0])}
    # C17
    if rng.random() < 0.5:
        return {"focus": focus, "mode": "rotations", "seed": rng.randrange(2 ** 31)}
    return {"focus": focus, "mode": "frames", "seed": rng.randrange(2 ** 31)}


def abbreviate(trace):
    t = dict(trace)
    if "positions" in t:
        t["positions"] = t["positions"][:4]
    if "edges" in t:
        t["edges"] = t["edges"][:12]
    return t


OPS_REMOVABLE = False


def shuffled_keys(table, rng):
    """The same bond table with its keys inserted in another order (a dict built from an edge list)."""
    keys = list(table)
    rng.shuffle(keys)
    return {k: table[k] for k in keys}


def bonds_table(n, edges, pos, factor=None, order_rng=None):
    """order_rng: neighbour lists in a random order (a table built from an edge list as it comes) instead of ascending."""
    info = {i: [] for i in range(n)}
    adj = gen.adjacency(n, edges)
    for i in range(n):
        nbs = sorted(adj[i])
        if order_rng is not None:
            order_rng.shuffle(nbs)
        for j in nbs:
            length = float(np.linalg.norm(np.array(pos[i]) - np.array(pos[j])))
            if factor is not None:
                key = (min(i, j), max(i, j))
                length = factor[key][1] if isinstance(factor[key], tuple) else length * factor[key]
            info[i].append((j, length))
    return {i: l for i, l in info.items() if l}


def execute(trace, ctx):
    m = trace["mode"]
    if m in ("enum_trees", "random_graph", "chi2"):
        fn = {"enum_trees": exec_enum_trees, "random_graph": exec_random_graph, "chi2": exec_chi2}[m]
        if trace["seed"] % 5 == 3:
            import warnings
            ctx.probe("numpy_errors_raised_and_warnings_as_errors")
            with np.errstate(all="raise"), warnings.catch_warnings():
                warnings.simplefilter("error")
                return fn(trace, ctx)
        return fn(trace, ctx)
    if m in ("rotations", "frames") or m not in ("enum_trees", "random_graph", "chi2"):
        fn = exec_rotations if m == "rotations" else exec_frames
        if trace["seed"] % 3 == 2:
            # the caller's numerical environment: floating-point errors raised, warnings turned into errors (a test suite
            # run with -W error, a simulation code that traps NaNs).  A pure function that is correct by the statement
            # neither divides by zero nor produces NaN on the way to its (finite) answer
            import warnings
            ctx.probe("numpy_errors_raised_and_warnings_as_errors")
            with np.errstate(all="raise"), warnings.catch_warnings():
                warnings.simplefilter("error")
                return fn(trace, ctx)
        return fn(trace, ctx)


# ---- C07 ---------------------------------------------------------------------------------------------

def exec_enum_trees(trace, ctx):
    import random as _r
    import gaddlemaps._transform_molecule as T
    from gaddlemaps import move_mol_atom
    rng = _r.Random(trace["seed"])
    n = trace["n"]
    real_displ = T.find_atom_random_displ
    seen = {}

    def mon_displ(atoms_pos, bonds_info, atom_index, *a, **kw):
        before = np.array(atoms_pos, copy=True)
        snap_ = table_snapshot(bonds_info)
        out = real_displ(atoms_pos, bonds_info, atom_index, *a, **kw)
        table_unchanged(ctx, bonds_info, snap_, "find_atom_random_displ")
        check_displacement(ctx, before, snap_, atom_index, out)
        seen["d"] = np.array(out, copy=True)
        return out
    if trace.get("first", 0) == 0:
        # the smallest tree of all: one atom, no bond, an explicit displacement (the table may list the atom with no
        # neighbours, or not at all)
        for table1 in ({0: []},):
            p1 = np.array([[rng.uniform(-3, 3) for _ in range(3)]])
            d1 = np.array(gen.unit_vec(rng)) * rng.choice([0.01, 1.0])
            try:
                out1 = move_mol_atom(p1.copy(), table1, atom_index=0, displ=d1.copy())
            except Exception as e:
                ctx.violate("C07", "move-raised", f"one-atom molecule, table {table1}: {type(e).__name__}: {e}")
                break
            check_move(ctx, p1, p1.copy(), table1, 0, d1, out1, tree=True)
        ctx.probe("one_atom_tree")
    for idx in range(trace["first"], trace["last"]):
        edges = tree_by_index(n, idx)
        pos = np.array(gen.grow_positions(rng, n, edges, 0.15))
        perturbed = rng.random() < 0.5
        factor = {(min(i, j), max(i, j)): rng.uniform(0.7, 1.3) for i, j in edges} if perturbed else None
        nb_rng = rng if idx % 3 == 1 else None         # a third of the trees: neighbour lists in arbitrary order
        table = bonds_table(n, edges, pos, factor, order_rng=nb_rng)
        # the same molecule and the same moved atom again, with ANOTHER bond table (another conformation of the species):
        # the result must follow the table handed over now, not one seen earlier
        factor2 = {(min(i, j), max(i, j)): rng.uniform(0.7, 1.3) for i, j in edges}
        if idx % 3 == 2:
            # tabulated lengths as force fields have them: a few values, many bonds with EXACTLY the same length
            factor2 = {k_: ("abs", rng.choice([0.109, 0.153, 0.153, 0.25])) for k_ in factor2}
        table2 = bonds_table(n, edges, pos, factor2, order_rng=nb_rng)
        if idx % 2:
            table, table2 = shuffled_keys(table, rng), shuffled_keys(table2, rng)
        for moved in range(n):
            for tb in ((table, table2) if (idx + moved) % 3 == 0 else (table,)):
                d = np.array(gen.unit_vec(rng)) * rng.choice([0.01, 0.1, 1.0, 10.0])
                if (idx + moved) % 11 == 4:
                    d = np.zeros(3)        # "move" by nothing: the table must still be imposed
                before = pos.copy()
                arr = pos.copy()
                tb_snap = table_snapshot(tb)
                try:
                    if (idx + moved) % 5 == 1:
                        out = move_mol_atom(arr.tolist(), tb, atom_index=moved, displ=[float(x) for x in d])   # plain lists
                        arr = before.copy()
                    elif (idx + moved) % 7 == 3:
                        # the atom is named, the displacement is drawn (perpendicular to its first neighbours)
                        with RandomSeam(ctx, (trace["seed"] + 31 * idx + moved) % (2 ** 32), log=False), \
                                patched(T, "find_atom_random_displ", mon_displ):
                            seen.clear()
                            out = move_mol_atom(arr, tb, atom_index=moved, sigma_scale=rng.choice([0.1, 0.5, 2.0]))
                        d = seen.get("d")
                        ctx.probe("atom_given_displacement_random")
                        if d is None:
                            ctx.probe("random_displacement_not_observed")
                    elif (idx + moved) % 6 == 2:
                        arr = np.asfortranarray(before)         # the same coordinates, column-major in memory
                        out = move_mol_atom(arr, tb, atom_index=moved, displ=d.copy())
                        ctx.probe("column_major_coordinates")
                    else:
                        out = move_mol_atom(arr, tb, atom_index=moved, displ=d.copy())
                except Exception as e:
                    ctx.violate("C07", "move-raised", f"tree #{idx} on {n} atoms, moved atom {moved}: {type(e).__name__}: {e}")
                    return
                table_unchanged(ctx, tb, tb_snap, "move_mol_atom")
                check_move(ctx, before, arr, tb_snap, moved, d, out, tree=True)
                ctx.steps += 1
        ctx.counters["labelled_trees"] += 1
    ctx.probe("enumerated_tree_batch")
    ctx.nontrivial = True
    ctx.op("enum_trees", f"n{n}")
    ctx.sig.append((n, trace["first"]))


def exec_random_graph(trace, ctx):
    import random as _r
    import gaddlemaps._transform_molecule as T
    from gaddlemaps import move_mol_atom
    rng = _r.Random(trace["seed"])
    n = trace["n"]
    edges = [tuple(e) for e in trace["edges"]]
    pos = np.array(trace["positions"])
    unit = 1.0
    if trace["seed"] % 8 == 6:
        unit = rng.choice([1e-4, 1e-3, 1e3])            # other length units: nothing in the statement knows what a nanometre is
        pos = pos * unit
        ctx.probe("other_length_units")
    tree = len(edges) == n - 1
    factor = None
    if trace["table"] == "perturbed":
        factor = {(min(i, j), max(i, j)): rng.uniform(0.7, 1.3) for i, j in edges}
        if trace["seed"] % 3 == 0:
            factor = {k_: ("abs", rng.choice([0.109, 0.153, 0.153, 0.25]) * unit) for k_ in factor}
            ctx.probe("many_bonds_of_exactly_equal_tabulated_length")
        ctx.probe("bond_table_disagrees_with_geometry")
    nb_rng = rng if trace["seed"] % 3 == 1 else None
    table = bonds_table(n, edges, pos, factor, order_rng=nb_rng)
    if nb_rng is not None:
        ctx.probe("neighbour_lists_in_arbitrary_order")
    if trace["seed"] % 2:
        table = shuffled_keys(table, rng)
    real_displ = T.find_atom_random_displ
    seen = {}

    def mon_displ(atoms_pos, bonds_info, atom_index, *a, **kw):
        before = np.array(atoms_pos, copy=True)
        snap_ = table_snapshot(bonds_info)
        out = real_displ(atoms_pos, bonds_info, atom_index, *a, **kw)
        table_unchanged(ctx, bonds_info, snap_, "find_atom_random_displ")
        check_displacement(ctx, before, snap_, atom_index, out)
        seen["d"] = np.array(out, copy=True)
        seen["i"] = atom_index
        return out

    drawn = {}

    def on_draw(site, fname, args, value):
        if fname == "randint":
            drawn["i"] = int(value)

    with RandomSeam(ctx, trace["np_seed"], listener=on_draw), patched(T, "find_atom_random_displ", mon_displ):
        kept = []
        for rep in range(8):
            if rng.random() < 0.15 and n >= 3:
                # a REFUSED call in between: a bond table that lacks the entry of an atom the walk will reach (or names an
                # atom that does not exist); whatever it raises, the next valid call must be unaffected
                broken = {i: list(l) for i, l in table.items()}
                victim = rng.randrange(n)
                if rng.random() < 0.5:
                    broken.pop(victim, None)
                else:
                    broken.setdefault(victim, []).append((n + 3, 0.1))
                try:
                    move_mol_atom(pos.copy(), broken, atom_index=(victim + 1) % n, displ=np.array([0.01, 0.02, 0.03]))
                except Exception:
                    ctx.fault("refused_move_call")
            before = pos.copy()
            arr = pos.copy()
            if rep % 4 == 3:
                arr = np.asfortranarray(pos)              # column-major (built column by column, or a transposed (3, n) array)
                ctx.probe("column_major_coordinates")
            explicit = rng.random() < 0.4
            only_displ = (not explicit) and rng.random() < 0.3
            only_index = (not explicit) and (not only_displ) and rng.random() < 0.35
            tb_snap = table_snapshot(table)
            try:
                if only_index:
                    # the atom is named, the displacement is drawn
                    seen.clear()
                    moved = rng.randrange(n)
                    out = move_mol_atom(arr, table, atom_index=moved, sigma_scale=trace["sigma_scale"])
                    d = seen.get("d")
                    ctx.probe("atom_given_displacement_random")
                    if d is None:
                        ctx.probe("random_displacement_not_observed")
                elif only_displ:
                    # the displacement is requested, the atom is left to chance
                    drawn.clear()
                    d = np.array(gen.unit_vec(rng)) * rng.choice([0.01, 0.3, 5.0]) * unit
                    out = move_mol_atom(arr, table, displ=d.copy(), sigma_scale=trace["sigma_scale"])
                    moved = drawn.get("i")
                    ctx.probe("displacement_given_atom_random")
                    if moved is None:
                        hit = [i for i in range(n) if np.array_equal(np.asarray(out)[i], before[i] + d)]
                        if not hit:
                            ctx.violate("C07", "moved-atom-displacement", "a displacement was requested for a randomly chosen "
                                                                          "atom, but no atom was displaced by exactly that vector")
                        moved = hit[0] if hit else None
                elif explicit:
                    moved = rng.randrange(n)
                    d = np.array(gen.unit_vec(rng)) * rng.choice([0.01, 0.3, 5.0]) * unit
                    out = move_mol_atom(arr, table, atom_index=moved, displ=d.copy(), sigma_scale=trace["sigma_scale"])
                else:
                    seen.clear()
                    out = move_mol_atom(arr, table, sigma_scale=trace["sigma_scale"])
                    moved, d = seen.get("i"), seen.get("d")
                    if moved is None:
                        ctx.probe("random_displacement_not_observed")
                        # the moved atom can still be told from the coordinates: on a tree it is the one atom all of whose
                        # neighbours kept their direction... (not attempted: counted as a gap)
            except Exception as e:
                ctx.violate("C07", "move-raised", f"{n}-atom {'tree' if tree else 'cyclic graph'}: {type(e).__name__}: {e}")
                return
            table_unchanged(ctx, table, tb_snap, "move_mol_atom")
            check_move(ctx, before, arr, tb_snap, moved, d, out, tree=tree)
            ctx.steps += 1
            try:
                kept.append((out, np.array(out, dtype=float, copy=True)))
            except Exception:
                pass
            if rng.random() < 0.5 and np.all(np.isfinite(out)) and tree and factor is None:
                pos = np.array(out)         # walk on: later moves start from a moved configuration
            elif rng.random() < 0.3:
                # same connectivity, another bond table (the species in another conformation)
                factor = {(min(i, j), max(i, j)): rng.uniform(0.7, 1.3) for i, j in edges}
                new_table = bonds_table(n, edges, pos, factor, order_rng=nb_rng)
                if rng.random() < 0.5:
                    for k_ in list(table):          # the SAME dict object, edited in place
                        table[k_] = new_table[k_]
                    ctx.probe("bond_table_edited_in_place")
                else:
                    table = new_table
                ctx.probe("bond_table_changed_between_moves")
    for raw, snap_ in kept:
        if not np.array_equal(np.array(raw, dtype=float), snap_):
            ctx.violate("C07", "returned-array-changed-later", "an array returned by move_mol_atom changed after a later call")
            break
    ctx.nontrivial = True
    ctx.op("random_graph", ("tree" if tree else "cyclic") + ":" + trace["table"])
    ctx.sig.append((n, len(edges)))


# ---- C08 ---------------------------------------------------------------------------------------------

def exec_chi2(trace, ctx):
    import random as _r
    from gaddlemaps import Chi2Calculator
    rng = _r.Random(trace["seed"])
    nf, nm = trace["nf"], trace["nm"]
    sp = trace["spread"]
    if trace["seed"] % 9 == 5:
        sp = sp * rng.choice([1e-4, 1e-3, 1e3])        # the same sets in other length units (absolute thresholds would show)
        ctx.probe("other_length_units")
    fixed = np.array([[rng.uniform(-sp, sp) for _ in range(3)] for _ in range(nf)])
    mob0 = np.array([[rng.uniform(-sp, sp) for _ in range(3)] for _ in range(nm)])
    far = np.zeros(3)
    if trace["seed"] % 7 == 3:
        # both sets far from the origin (separations stay what they were): reformulations that subtract large squares lose
        # the small distances the measure is made of
        far = np.array([rng.choice([-1, 1]) * 10 ** rng.uniform(2.5, 4) for _ in range(3)])
        fixed = fixed + far
        mob0 = mob0 + far
        ctx.probe("sets_far_from_origin")
    restr = [tuple(r) for r in trace["restraints"]]
    form = trace["seed"] % 5
    if form == 1:
        # integer-valued fixed coordinates handed over as an INTEGER array (as the library's own tests do); the mobile
        # configurations evaluated later are ordinary floats
        fixed = np.round(fixed * (4.0 / sp)).astype(float)
        if len({tuple(r) for r in fixed}) < nf:
            fixed = fixed + np.arange(nf)[:, None] * np.array([7.0, 0.0, 0.0])
        ctx.probe("integer_typed_fixed_array")
    fixed_in = fixed.astype(np.int64) if form == 1 else (fixed.astype(np.float32).astype(np.float64) if form == 2 else fixed.copy())
    if form == 2:
        fixed = fixed_in.copy()
        fixed_in = fixed_in.astype(np.float32)         # exactly representable: same values, other dtype
        ctx.probe("float32_fixed_array")
    restr_arg = [tuple(r) for r in restr] if restr else (None if rng.random() < 0.5 else [])
    if restr and trace["seed"] % 4 == 2:
        # the restraint list as a numpy array of the narrowest integer type that holds the indices
        dt = rng.choice([np.int64, np.int32, np.int16, np.uint8 if max(nf, nm) < 256 else np.int32, np.int8 if max(nf, nm) < 128 else np.int16])
        restr_arg = np.array(restr, dtype=dt)
        ctx.probe("restraints_as_small_int_array")
    def sibling(fixed_other, when):
        """Another calculator with the SAME restraint list on another fixed set (same species, another selection of atoms):
        whether 'every fixed atom is restrained' is a fact about each calculator, not about the list."""
        try:
            c2 = Chi2Calculator(fixed_other.copy(), mob0.copy(), [tuple(r) for r in restr])
            v2 = float(c2(mob0.copy()))
        except Exception as e:
            ctx.violate("C08", "chi2-raised", f"a second calculator with the same restraint list raised {type(e).__name__}: {e}")
            return
        w2, _k2, amb_ = naive_chi2(fixed_other, mob0, restr)
        if not amb_ and (not math.isfinite(v2) or abs(v2 - w2) > 1e-9 * max(abs(w2), 1e-300)):
            ctx.violate("C08", "chi2-value", f"a calculator built {when} another one with the same restraint list gives {v2!r}; the "
                                             f"reference definition {w2!r} ({len(fixed_other)} fixed atoms, {len(restr)} restraints)",
                        key="sibling")
        ctx.probe("sibling_calculator_same_restraints")
    sib = restr and trace["seed"] % 2 == 0 and form == 0
    if sib:
        fmax = max(i for i, _ in restr)
        if fmax + 1 < nf:
            sibling(fixed[:fmax + 1], "before")          # fewer fixed atoms (possibly all of them restrained)
    fixed_in_snap = fixed_in.copy()
    mob0_in = mob0.copy()
    try:
        calc = Chi2Calculator(fixed_in, mob0_in, restr_arg)
    except Exception as e:
        ctx.violate("C08", "chi2-construct-raised", f"Chi2Calculator({nf}x{nm}, {len(restr)} restraints) raised {type(e).__name__}: {e}")
        return

    def inputs_intact(when):
        if not np.array_equal(fixed_in, fixed_in_snap) or fixed_in.dtype != fixed_in_snap.dtype or not np.array_equal(mob0_in, mob0):
            ctx.violate("C08", "chi2-modifies-construction-arrays", f"the calculator changed the coordinate arrays it was built "
                                                                    f"from ({when})")
            return False
        return True
    if not inputs_intact("at construction"):
        return
    path = "none" if not restr else ("all" if len({r[0] for r in restr}) == nf else "some")
    ctx.counters["chi2_path:" + path] += 1
    def refused_evaluation():
        """An evaluation the calculator must refuse (a configuration with a missing column / too few atoms for the restraints):
        whatever it raises, the valid evaluations around it must be unaffected."""
        bad_ = mob0[:, :2].copy() if rng.random() < 0.5 or nm < 2 else mob0[:max(1, nm // 2)].copy()
        try:
            calc(bad_)
        except Exception:
            ctx.fault("refused_chi2_evaluation")
    if trace["seed"] % 4 == 1:
        refused_evaluation()          # ... also as the very FIRST evaluation of a calculator
    work = mob0.copy()          # ONE buffer handed to the calculator again and again, modified in place in between
    reuse_buffer = trace["seed"] % 3 == 1
    if reuse_buffer:
        ctx.probe("mobile_buffer_modified_in_place")
    walk = trace["seed"] % 5 == 4          # a chain of configurations that differ by small steps (a trajectory), 30 long
    if walk:
        ctx.probe("small_step_walk")
    prev_mob = mob0.copy()
    drift = np.array(gen.unit_vec(rng)) * 0.04
    for rep in range(120 if walk else 10):
        if rep == 0:
            mob = mob0.copy()
        elif walk:
            mob = prev_mob + np.array([[rng.uniform(-1, 1) * 0.02 for _ in range(3)] for _ in range(nm)])
            mob[: max(1, nm // 3)] += drift      # a few atoms drift steadily (small steps, large total), the others jitter
        elif reuse_buffer and rep % 2 == 1:
            mob = work.copy()
            mob[rng.randrange(nm)] += np.array(gen.rvec(rng, sp * 0.3))      # a single-atom move of the previous argument
        else:
            mob = np.array([[rng.uniform(-sp, sp) for _ in range(3)] for _ in range(nm)]) + far
            if rng.random() < 0.3:       # some mobile atoms exactly on top of fixed atoms (distance 0 is legal)
                for _ in range(rng.randint(1, 3)):
                    mob[rng.randrange(nm)] = fixed[rng.randrange(nf)]
        prev_mob = mob.copy()
        if rep in (2, 5) and trace["seed"] % 4 in (1, 2):
            refused_evaluation()
        if reuse_buffer:
            work[:] = mob
            arg = work
        elif rep % 4 == 1:
            arg = np.asfortranarray(mob)                     # column-major copy
            ctx.probe("mobile_array_fortran_order")
        elif rep % 4 == 2:
            wide = np.full((2 * nm + 1, 5), 1e30)            # every second row, three middle columns of a larger array
            wide[1::2, 1:4][:nm] = mob
            arg = wide[1::2, 1:4][:nm]
            ctx.probe("mobile_array_strided_view")
        else:
            arg = mob.copy()
        try:
            val = float(calc(arg))
        except Exception as e:
            ctx.violate("C08", "chi2-raised", f"evaluation raised {type(e).__name__}: {e}")
            return
        ctx.steps += 1
        ctx.counters["chi2_evaluations"] += 1
        if not np.array_equal(arg, mob):
            ctx.violate("C08", "chi2-modifies-argument", "evaluating the measure modified the configuration array")
        want, k, ambiguous = naive_chi2(fixed, mob, restr)
        want2, k2, amb2 = fast_chi2(fixed, mob, restr)
        if ambiguous or amb2:
            # which mobile atom is "nearest" is undefined at a tie, so the factor 1.1^k is: the value is not compared, but it
            # is still a finite, non-negative number
            ctx.probe("chi2_tie_skipped")
            if not math.isfinite(val) or val < 0:
                ctx.violate("C08", "chi2-value", f"measure = {val!r} on a configuration with a nearest-atom tie", key=path)
            continue
        if abs(want - want2) > 1e-9 * max(abs(want), 1e-300) or k != k2:
            from sim.core import HarnessError
            raise HarnessError(f"the two reference evaluations disagree: {want!r} (k={k}) vs {want2!r} (k={k2})")
        if rep:
            ctx.probe("chi2_off_construction_config")
        if k:
            ctx.probe("chi2_penalty_k>0")
        if not math.isfinite(val) or val < 0 or abs(val - want) > 1e-9 * max(abs(want), 1e-300):
            ctx.violate("C08", "chi2-value", f"measure = {val!r}, reference definition gives {want!r} (k={k}, path '{path}', "
                                             f"{nf}x{nm} atoms, configuration #{rep})", key=path)
            return
        if walk and rep > 3:
            continue
        # invariance under a common rigid motion of both sets
        R = gen.random_rotation(rng)
        t = np.array(gen.rvec(rng, 5.0))
        try:
            calc_r = Chi2Calculator(fixed @ R.T + t, mob0 @ R.T + t, [tuple(r) for r in restr] if restr else None)
            val_r = float(calc_r(mob @ R.T + t))
        except Exception as e:
            ctx.violate("C08", "chi2-raised", f"evaluation after a rigid motion raised {type(e).__name__}: {e}")
            return
        tol = 1e-9 * max(abs(want), 1e-300) + 1e-9 * (sp + 5) ** 2 * 1e-3
        if abs(val_r - val) > max(tol, 1e-7 * abs(want)):
            # a rigid motion may flip a near-tie of nearest neighbours; accept only if the naive value moved as well
            w_r, _, amb_r = naive_chi2(fixed @ R.T + t, mob @ R.T + t, restr)
            if not amb_r and abs(w_r - want) <= 1e-7 * max(abs(want), 1e-300):
                ctx.violate("C08", "chi2-rigid-invariance", f"measure changed from {val!r} to {val_r!r} under a common rigid motion")
                return
        # invariance under consistent relabelling
        pf = list(range(nf))
        pm = list(range(nm))
        rng.shuffle(pf)
        rng.shuffle(pm)
        inv_f = {old: new for new, old in enumerate(pf)}
        inv_m = {old: new for new, old in enumerate(pm)}
        restr_p = [(inv_f[i], inv_m[j]) for i, j in restr]
        try:
            calc_p = Chi2Calculator(fixed[pf], mob0[pm], restr_p if restr_p else None)
            val_p = float(calc_p(mob[pm]))
        except Exception as e:
            ctx.violate("C08", "chi2-raised", f"evaluation after relabelling raised {type(e).__name__}: {e}")
            return
        if abs(val_p - val) > 1e-9 * max(abs(want), 1e-300):
            ctx.violate("C08", "chi2-relabelling", f"measure changed from {val!r} to {val_p!r} under a consistent relabelling of "
                                                   f"atoms and restraints (path '{path}')", key=path)
            return
    inputs_intact("after the evaluations")
    if sib:
        extra_rows = np.array([[rng.uniform(-sp, sp) for _ in range(3)] for _ in range(rng.randint(1, 4))]) + far
        sibling(np.vstack([fixed, extra_rows]), "after")          # more fixed atoms, the extra ones unrestrained
    ctx.nontrivial = True
    ctx.op("chi2", path)
    ctx.sig.append((nf, nm, len(restr)))


# ---- C17 ---------------------------------------------------------------------------------------------

def exec_rotations(trace, ctx):
    import random as _r
    from gaddlemaps import rotation_matrix
    rng = _r.Random(trace["seed"])
    tol = 1e-12
    # a third of the batches hands over ONE float64 buffer that is overwritten in place between calls (a row of an array
    # of axes, an axis precessed in place): the matrix must depend on the values, not on the identity of the argument
    reuse = trace["seed"] % 3 == 0
    buf = np.zeros(3)

    def arg(v):
        if not reuse:
            return np.array(v, dtype=float, copy=True)
        buf[:] = v
        return buf
    if reuse:
        ctx.probe("axis_buffer_reused_in_place")
    kept = []
    for rep in range(40):
        norm = 10 ** rng.uniform(-6, 6)
        if rep % 5 == 2:
            # lengths close to, but not equal to, 1 (and to other round values): where a tolerance-based "already
            # normalised" shortcut would bite
            norm = rng.choice([1.0, 1.0, 2.0, 0.5]) * (1 + rng.choice([-1, 1]) * 10 ** rng.uniform(-9, -3))
            ctx.probe("axis_length_near_unit")
        c = rng.random()
        if c < 0.2:
            axis = np.zeros(3)
            axis[rng.randrange(3)] = rng.choice([1, -1]) * norm
        else:
            axis = np.array(gen.unit_vec(rng)) * norm
        theta = rng.choice([rng.uniform(-20, 20), rng.uniform(-20, 20), 0.0, math.pi, -math.pi, 2 * math.pi, rng.uniform(-1e-8, 1e-8)])
        if rep % 7 == 3:
            # whole-number angles as Python ints, others as numpy scalars
            theta = rng.choice([0, 1, -3, 7, np.float64(theta)])
            ctx.probe("angle_as_int_or_numpy_scalar")
        try:
            raw = rotation_matrix(arg(axis), theta)
            M = np.array(raw, dtype=float)
            kept.append((raw, M.copy()))
        except Exception as e:
            ctx.violate("C17", "rotation-raised", f"rotation_matrix({axis.tolist()}, {theta}) raised {type(e).__name__}: {e}")
            return
        check_rotation(ctx, axis, theta, M, tol)
        ctx.steps += 1
        try:
            Mneg = np.array(rotation_matrix(arg(axis), -theta), dtype=float)
            b = rng.uniform(-20, 20)
            Mb = np.array(rotation_matrix(arg(axis), b), dtype=float)
            Mab = np.array(rotation_matrix(arg(axis), theta + b), dtype=float)
            # (another length of the same axis, inside the stated range of norms 1e-6 .. 1e6)
            fac = rng.choice([f for f in (1e-3, 7.0, 1e4, 0.3) if 1e-6 <= norm * f <= 1e6])
            Mscaled = np.array(rotation_matrix(arg(axis * fac), theta), dtype=float)
            Mlist = np.array(rotation_matrix(list(axis), theta), dtype=float) if rng.random() < 0.2 else M
            if rep % 8 == 0:
                # other argument forms of the same axis: tuple, integer array (coordinate axes), float32 (exactly
                # representable values only)
                iax = np.zeros(3, dtype=np.int64)
                iax[rng.randrange(3)] = rng.choice([1, -1, 3])
                Mi = np.array(rotation_matrix(iax, theta), dtype=float)
                Mf = np.array(rotation_matrix(iax.astype(float), theta), dtype=float)
                Mt = np.array(rotation_matrix(tuple(float(x) for x in iax), theta), dtype=float)
                M32 = np.array(rotation_matrix(iax.astype(np.float32), theta), dtype=float)
                # unsigned and narrow integer types, large integer components (norm up to 1e6)
                uax = np.abs(iax).astype(np.uint8)
                Mu = np.array(rotation_matrix(uax, theta), dtype=float)
                Muf = np.array(rotation_matrix(uax.astype(float), theta), dtype=float)
                big = (iax * rng.choice([300, 70000, 300000])).astype(np.int32)      # (norm below 1e6)
                Mb32 = np.array(rotation_matrix(big, theta), dtype=float)
                if max(np.max(np.abs(Mu - Muf)), np.max(np.abs(Mb32 - Mf))) > tol:
                    ctx.violate("C17", "rotation-argument-form", f"the matrix for axis {iax.tolist()} depends on the integer type / "
                                                                 f"magnitude of the array it is given in (uint8 {uax.tolist()}, int32 {big.tolist()})")
                if max(np.max(np.abs(Mi - Mf)), np.max(np.abs(Mt - Mf)), np.max(np.abs(M32 - Mf))) > tol:
                    ctx.violate("C17", "rotation-argument-form", f"the matrix for axis {iax.tolist()} depends on whether the axis "
                                                                 f"is given as int array / tuple / float32 / float64")
                check_rotation(ctx, iax.astype(float), theta, Mi, tol)
                ctx.probe("axis_argument_forms")
        except Exception as e:
            ctx.violate("C17", "rotation-raised", f"rotation_matrix raised {type(e).__name__}: {e}")
            return
        if np.max(np.abs(Mneg - M.T)) > tol:
            ctx.violate("C17", "rotation-inverse", f"R(-theta) != R(theta)^T for axis {axis.tolist()} theta {theta!r}")
        if np.max(np.abs(M @ Mb - Mab)) > 4 * tol:
            ctx.violate("C17", "rotation-composition", f"R(a) R(b) != R(a+b) for axis {axis.tolist()} a={theta!r} b={b!r} "
                                                       f"(max deviation {np.max(np.abs(M @ Mb - Mab)):.3e})")
        if np.max(np.abs(Mscaled - M)) > tol or np.max(np.abs(Mlist - M)) > tol:
            ctx.violate("C17", "rotation-axis-length", f"the matrix depends on the length of the axis {axis.tolist()}")
    for raw, snap_ in kept:
        if not np.array_equal(np.array(raw, dtype=float), snap_):
            ctx.violate("C17", "returned-matrix-changed-later", "a matrix returned by rotation_matrix changed after a later call")
            break
    ctx.nontrivial = True
    ctx.op("rotations", "ok")
    ctx.sig.append(trace["seed"] % 1000)


def exec_frames(trace, ctx):
    import random as _r
    from gaddlemaps import calcule_base
    rng = _r.Random(trace["seed"])
    mon = FrameMonitor(ctx, calcule_base)
    reuse = trace["seed"] % 3 == 0
    pbuf = np.zeros((3, 3))
    if reuse:
        ctx.probe("points_buffer_reused_in_place")
    for rep in range(40):
        scale = 2.0 ** rng.randint(-10, 10)
        kind = rng.choice(["generic", "axis", "diagonal", "intdir", "numerically", "coincident_middle", "generic",
                           "band", "band", "coincident_last", "far", "grid"])
        if kind == "generic":
            while True:
                pts = [np.array(gen.rvec(rng, 1.0)) * scale for _ in range(3)]
                from sim.models import XMapModel
                if XMapModel.sin_angle(pts[0], pts[1], pts[2]) > 2e-3 and np.linalg.norm(pts[2] - pts[0]) > 1e-3 * scale:
                    break
        elif kind in ("axis", "diagonal", "intdir"):
            p, _ = collinear_positions(rng, 3, kind)
            pts = [np.array(x) * scale for x in p]
        elif kind == "numerically":
            p, _ = collinear_positions(rng, 3, rng.choice(["axis", "diagonal", "intdir"]))
            R = gen.random_rotation(rng)
            t = np.array(gen.rvec(rng, 30.0))
            pts = [(R @ np.array(x)) * scale + t for x in p]
        elif kind == "band":
            # NEARLY collinear: the angle at the first point anywhere between rounding noise and the well-conditioned range
            a = np.array(gen.rvec(rng, 1.0)) * scale
            e1 = np.array(gen.unit_vec(rng))
            u = np.cross(e1, np.array(gen.unit_vec(rng)))
            if np.linalg.norm(u) < 0.1:
                u = np.cross(e1, np.array([0.3, -0.5, 0.8]))
            u /= np.linalg.norm(u)
            th = 10 ** rng.uniform(-13, -2)
            L1, L2 = rng.uniform(0.05, 2) * scale, rng.uniform(0.05, 2) * scale
            pts = [a, a + L1 * (rng.choice([-1, 1]) * math.cos(th) * e1 + math.sin(th) * u), a + L2 * e1]
        elif kind == "coincident_last":
            a = np.array(gen.rvec(rng, 1.0)) * scale
            b = a + np.array(gen.unit_vec(rng)) * scale * rng.uniform(0.01, 2)
            pts = [a, b, b.copy()]
        elif kind == "far":
            # a generic triple far from the origin (a molecule somewhere in a large box)
            from sim.models import XMapModel
            t = np.array(gen.rvec(rng, 1.0)) * rng.choice([30.0, 300.0, 1000.0])
            while True:
                pts = [np.array(gen.rvec(rng, 1.0)) * min(scale, 4.0) + t for _ in range(3)]
                if XMapModel.sin_angle(pts[0], pts[1], pts[2]) > 2e-3 and np.linalg.norm(pts[2] - pts[0]) > 1e-3 * min(scale, 4.0):
                    break
        elif kind == "grid":
            # NOT collinear but aligned with the coordinate axes: lattice points, often in one coordinate plane
            from sim.models import XMapModel
            planar = rng.random() < 0.5
            ax = rng.randrange(3)
            while True:
                ipts = [[rng.randint(-6, 6) for _ in range(3)] for _ in range(3)]
                if planar:
                    for q in ipts:
                        q[ax] = ipts[0][ax]
                pts = [np.array(q, dtype=float) * scale / 8.0 for q in ipts]
                if ipts[0] != ipts[2] and XMapModel.sin_angle(pts[0], pts[1], pts[2]) > 2e-3:
                    break
        else:
            a = np.array(gen.rvec(rng, 1.0)) * scale
            b = a + np.array(gen.unit_vec(rng)) * scale * rng.uniform(0.01, 2)
            pts = [a, a.copy(), b]
        if kind in ("generic", "grid", "band") and rng.random() < 0.25:
            # one of the three points EXACTLY at the origin (+0.0 or -0.0): a valid point like any other
            kz = rng.randrange(3)
            shift_ = pts[kz].copy()
            pts = [p_ - shift_ for p_ in pts]
            if rng.random() < 0.4:
                pts[kz] = np.array([-0.0, 0.0, -0.0])
            ctx.probe("frame_point_exactly_at_origin")
        order = rng.random()
        try:
            if reuse:
                pbuf[:] = np.array(pts)
                mon(pbuf if order < 0.5 else [pbuf[0], pbuf[1], pbuf[2]])
            elif order < 0.5:
                mon([p.copy() for p in pts])
            else:
                mon(np.array(pts))
        except Exception as e:
            ctx.violate("C17", "frame-raised", f"calcule_base raised {type(e).__name__}: {e} for points {[p.tolist() for p in pts]}")
            return
        ctx.steps += 1
        ctx.counters["frame_kind:" + kind] += 1
    mon.recheck()
    ctx.nontrivial = True
    ctx.op("frames", "ok")
    ctx.sig.append(trace["seed"] % 1000)
