"""Engine `alias` (C18): operation histories over an object graph vs. an aliasing model.

The graph grows with the history: seed molecules, their copies / deep copies, residues and
atoms copied out of them, live atom views, molecules handed out by a System (through real
files) and molecules stored by an Alignment.  The model knows, for every tracked object, which
coordinate cells it reads and writes (copies: fresh cells; views: the same cells) and whether
its topology is shared.  After EVERY operation every tracked object is compared with the
model: bitwise for cells the operation did not touch, 1e-9 for the ones it did."""
import os

import numpy as np

from sim import gen

NAME = "alias"
P = "C18"


def generate(rng, tier, focus):
    seeds = []
    big = rng.random() < 0.02
    for k in range(rng.randint(1, 2) if not big else 1):
        n = rng.randint(1, 9) if not big else rng.randint(260, 330)     # a residue of more than 256 atoms (a polymer kept whole)
        n_res = rng.choice([1, 1, 2, 3])
        spec = gen.mol_spec(rng, "M%d" % k, n, n_res=n_res, p_hydrogen=0.2, velocities=rng.random() < 0.5,
                            resname="S%d" % k)
        spec["positions"] = gen.round3(spec["positions"])
        if "velocities" in spec:
            spec["velocities"] = [[round(x, 4) for x in v] for v in spec["velocities"]]
        seeds.append(spec)
    n_ops = rng.randint(6, 40) if not big else rng.randint(6, 14)
    ops = []
    kinds = ["refused", "copy", "copy", "deep_copy", "move", "move", "move_to", "rotate", "rotate", "set_pos", "set_vel", "set_ids",
             "set_resids", "set_names", "view", "view_assign", "view_assign", "system", "alignment", "atom_copy",
             "residue_copy", "atoms_list", "read_centre", "read_centre", "move_to_partial", "move_axis"]
    for _ in range(n_ops):
        k = rng.choice(kinds)
        op = {"op": k, "pick": rng.randrange(10 ** 6), "seed": rng.randrange(2 ** 31)}
        if k == "move":
            op["d"] = gen.rvec(rng, rng.choice([0.1, 5.0]))
        elif k == "move_to":
            op["p"] = gen.rvec(rng, 10.0)
        elif k == "move_to_partial":
            # re-centring along one or two axes only: the target shares the other components EXACTLY with the current centre
            op["keep"] = rng.sample([0, 1, 2], rng.randint(1, 2))
            op["p"] = gen.rvec(rng, 10.0)
        elif k == "move_axis":
            d = gen.rvec(rng, rng.choice([0.1, 5.0]))
            for ax in rng.sample([0, 1, 2], rng.randint(1, 2)):
                d[ax] = 0.0
            op["d"] = d
        elif k == "rotate":
            op["R"] = gen.random_rotation(rng).tolist()
        elif k == "refused":
            op["what"] = rng.choice(["rotate_2x2", "rotate_3x2", "move_len2", "set_pos_wrong_shape", "set_vel_wrong_shape"])
        elif k == "set_vel":
            op["none"] = rng.random() < 0.3
        elif k == "set_resids":
            op["scalar"] = rng.random() < 0.4
        elif k == "view":
            op["how"] = rng.choice(["index", "iter", "neg_index", "np_index"])
        elif k == "view_assign":
            # (not the residue number: one atom of a residue numbered apart from the others is a state the library refuses
            #  to copy -- residues are defined by a common number)
            op["field"] = rng.choice(["position", "position", "velocity", "atomid", "atomid", "position_inplace", "velocity_inplace"])
        elif k == "system":
            op["count"] = rng.randint(1, 4)
            op["how"] = rng.choice(["index", "iter", "slice", "twice"])
        ops.append(op)
    # how often the harness LOOKS: reading every object after every operation would keep any read-refreshed cache inside the
    # library warm and hide staleness that real code (which does not look after every step) would meet
    return {"seeds": seeds, "ops": ops, "verify_stride": rng.choice([1, 1, 1, 2, 4, 10 ** 6])}


def abbreviate(trace):
    return {"seeds": [{"n": len(s["positions"]), "n_res": len(set(s["resids"])), "vel": "velocities" in s} for s in trace["seeds"]],
            "ops": [{k: v for k, v in o.items() if k in ("op", "how", "field", "none", "scalar")} for o in trace["ops"]]}


# --------------------------------------------------------------------------
# the aliasing model
# --------------------------------------------------------------------------

class Model:
    def __init__(self):
        self.cells = {}        # id -> dict(pos, vel, atomid, resid, name, resname)
        self.next_cell = 0
        self.objs = []         # dicts: kind, obj, cells, top, deep
        self.tops = {}         # top id -> number of tracked molecule-like objects sharing it
        self.top_resid = {}    # top id -> residue numbers held by the TOPOLOGY (shared by plain copies, cloned by deep copies)
        self.next_top = 0
        self.dirty = {}        # cell -> set(fields) predicted by the model but not yet observed (compared with tolerance)
        self.stride = 1
        self.since = 0
        self.pending_labels = []
        self.pending_share = []    # (deep copy, original) pairs whose topology atoms are compared at the next verification

    def new_cells(self, values, src=None):
        ids = []
        for k, v in enumerate(values):
            self.cells[self.next_cell] = dict(v)
            if src is not None and src[k] in self.dirty:
                self.dirty[self.next_cell] = set(self.dirty[src[k]])
            ids.append(self.next_cell)
            self.next_cell += 1
        return ids

    def new_top(self):
        self.next_top += 1
        self.tops[self.next_top] = 0
        return self.next_top

    def track(self, kind, obj, cells, top=None, note="", count_top=True):
        # a live view shares the topology object of its molecule but is the same atom (same cells): it does not
        # count as another sharer; a COPY of a view does
        if top is not None and count_top:
            self.tops[top] += 1
        self.objs.append({"kind": kind, "obj": obj, "cells": cells, "top": top, "note": note})
        return len(self.objs) - 1

    def values_of(self, o):
        return [self.cells[c] for c in o["cells"]]


def read_object(o):
    """Observable state of a tracked object as a list of per-atom dicts (through the public API)."""
    kind, obj = o["kind"], o["obj"]
    if kind in ("mol", "res"):
        pos = np.array(obj.atoms_positions, dtype=float)
        vel = obj.atoms_velocities
        ids = list(obj.atoms_ids)
        atoms = list(obj)
        out = []
        for i, a in enumerate(atoms):
            if kind == "mol":
                resid, v = a.gro_resid, a.velocity
            else:
                resid, v = a.resid, a.velocity
            out.append({"pos": pos[i], "vel": None if v is None else np.array(v, dtype=float), "atomid": ids[i],
                        "resid": resid, "name": a.name, "resname": a.resname})
        # the object's own summaries must agree with the per-atom view
        runs_id, runs_name = [], []
        prev = None
        for x in out:
            if (x["resid"], x["resname"]) != prev:
                prev = (x["resid"], x["resname"])
                runs_id.append(x["resid"])
                runs_name.append(x["resname"])
        if kind == "res":
            if obj.resid != out[0]["resid"] or obj.resname != out[0]["resname"]:
                raise AssertionError(f"residue reports ({obj.resid}, {obj.resname!r}), its atoms ({out[0]['resid']}, {out[0]['resname']!r})")
        else:
            per = [len(r) for r in obj.residues]
            firsts = [sum(per[:k]) for k in range(len(per))]
            if list(obj.resids) != [out[f]["resid"] for f in firsts] or list(obj.resnames) != [out[f]["resname"] for f in firsts]:
                raise AssertionError(f"molecule reports resids {list(obj.resids)} / resnames {list(obj.resnames)}, its atoms "
                                     f"{[out[f]['resid'] for f in firsts]} / {[out[f]['resname'] for f in firsts]}")
        if vel is None:
            if all(x["vel"] is not None for x in out):
                raise AssertionError("atoms_velocities is None although every atom has a velocity")
        else:
            vel = np.array(vel, dtype=float)
            for i, x in enumerate(out):
                if x["vel"] is None or not np.array_equal(x["vel"], vel[i]):
                    raise AssertionError("atoms_velocities disagrees with the atoms' velocity")
        return out
    a = obj
    resid = a.gro_resid if kind == "atom" else a.resid
    return [{"pos": np.array(a.position, dtype=float), "vel": None if a.velocity is None else np.array(a.velocity, dtype=float),
             "atomid": a.atomid, "resid": resid, "name": a.name, "resname": a.resname}]


FIELDS = ("pos", "vel", "atomid", "resid", "name", "resname")


def same_value(field, a, b, tol=0.0):
    if field in ("pos", "vel"):
        if a is None or b is None:
            return a is None and b is None
        if tol:
            return bool(np.max(np.abs(np.asarray(a) - np.asarray(b))) <= tol)
        return bool(np.array_equal(a, b))
    return a == b


# --------------------------------------------------------------------------
# execution
# --------------------------------------------------------------------------

def execute(trace, ctx):
    from gaddlemaps import Alignment
    from gaddlemaps.components import System
    M = Model()
    specs = trace["seeds"]
    tmp = None
    for s in specs:
        mol = gen.make_molecule(s)
        vals = []
        for i in range(len(s["positions"])):
            vals.append({"pos": np.array(s["positions"][i], dtype=float),
                         "vel": None if "velocities" not in s else np.array(s["velocities"][i], dtype=float),
                         "atomid": i + 1, "resid": s["resids"][i], "name": s["atom_names"][i], "resname": s["resnames"][i]})
        t0 = M.new_top()
        M.top_resid[t0] = list(s["resids"])
        M.track("mol", mol, M.new_cells(vals), top=t0, note="seed")
    verify(ctx, M, touched=set(), expected=None, label="initial")
    M.stride = int(trace.get("verify_stride", 1))
    if M.stride > 1:
        ctx.probe("lazy_verification")
    systems = []

    for i, op in enumerate(trace["ops"]):
        ctx.op_index = i
        ctx.steps += 1
        import random as _r
        rng = _r.Random(op["seed"])
        kind = op["op"]
        mols = [k for k, o in enumerate(M.objs) if o["kind"] == "mol"]
        bodies = [k for k, o in enumerate(M.objs) if o["kind"] in ("mol", "res")]
        anyobj = list(range(len(M.objs)))
        try:
            if kind in ("copy", "deep_copy"):
                cand = mols if kind == "deep_copy" else anyobj
                k = cand[op["pick"] % len(cand)]
                o = M.objs[k]
                new = o["obj"].deep_copy() if kind == "deep_copy" else o["obj"].copy()
                cells = M.new_cells(M.values_of(o), src=o["cells"])
                top = None
                if o["kind"] in ("mol", "atom"):
                    top = M.new_top() if kind == "deep_copy" else o["top"]
                    if kind == "deep_copy" and o["top"] in M.top_resid:
                        M.top_resid[top] = list(M.top_resid[o["top"]])
                        if M.stride > 1:
                            # the copy is not looked at before the next comparison (a copy that duplicates only when first
                            # used would otherwise be woken up by the harness itself)
                            M.pending_share.append((new, o["obj"]))
                            ctx.probe("copy_not_looked_at_until_later")
                        elif any(a is b for a, b in zip(new.molecule_top, o["obj"].molecule_top)):
                            ctx.violate(P, "isolation", "a deep copy shares topology atom objects with the original", key="deep_copy:top")
                M.track(o["kind"], new, cells, top=top, note=kind)
                ctx.op(kind, o["kind"])
                verify(ctx, M, set(), None, kind)
            elif kind in ("atom_copy", "residue_copy", "atoms_list"):
                k = mols[op["pick"] % len(mols)]
                o = M.objs[k]
                if kind == "atoms_list":
                    atoms = o["obj"].atoms           # copies of the atoms
                    j = op["pick"] % len(atoms)
                    M.track("atom", atoms[j], M.new_cells([M.cells[o["cells"][j]]], src=[o["cells"][j]]), top=o["top"], note="atoms[]")
                elif kind == "atom_copy":
                    j = op["pick"] % len(o["cells"])
                    M.track("atom", o["obj"][j].copy(), M.new_cells([M.cells[o["cells"][j]]], src=[o["cells"][j]]), top=o["top"], note="atom.copy")
                else:
                    residues = o["obj"].residues
                    r = op["pick"] % len(residues)
                    start = sum(len(x) for x in residues[:r])
                    sub = o["cells"][start:start + len(residues[r])]
                    M.track("res", residues[r].copy(), M.new_cells([M.cells[c] for c in sub], src=list(sub)), note="residue.copy")
                ctx.op(kind)
                verify(ctx, M, set(), None, kind)
            elif kind in ("move", "move_to", "rotate", "move_to_partial", "move_axis"):
                k = bodies[op["pick"] % len(bodies)]
                o = M.objs[k]
                old = np.array([M.cells[c]["pos"] for c in o["cells"]])
                centre = old.mean(axis=0)
                if kind == "move_to_partial":
                    # as user code does: read the centre, change some of its components, re-centre there
                    p = np.array(o["obj"].geometric_center, dtype=float, copy=True)
                    for ax in range(3):
                        if ax not in op["keep"]:
                            p[ax] = op["p"][ax]
                    o["obj"].move_to(p)
                    new = old + (p - centre)
                    want_centre = p
                    kind = "move_to"
                    ctx.probe("move_to_sharing_components_with_centre")
                elif kind in ("move", "move_axis"):
                    kind = "move"
                    d = np.array(op["d"])
                    o["obj"].move(d if op["pick"] % 3 else (list(op["d"]) if op["pick"] % 2 else tuple(op["d"])))
                    new = old + d
                    want_centre = centre + d
                elif kind == "move_to":
                    p = np.array(op["p"])
                    o["obj"].move_to(p if op["pick"] % 3 else list(op["p"]))
                    new = old + (p - centre)
                    want_centre = p
                else:
                    R = np.array(op["R"])
                    o["obj"].rotate(R if op["pick"] % 3 else [list(row) for row in op["R"]])
                    new = (old - centre) @ R.T + centre
                    want_centre = centre
                exp = {c: {"pos": new[j]} for j, c in enumerate(o["cells"])}
                ctx.op(kind, o["kind"] + ("-multi" if o["kind"] == "mol" and len(o["obj"].residues) > 1 else ""))
                if o["kind"] == "mol" and len(o["obj"].residues) > 1:
                    ctx.probe("rigid_op_on_multi_residue")
                ok = verify(ctx, M, set(o["cells"]), exp, kind)
                if ok:
                    got = np.array(o["obj"].atoms_positions)
                    gc = np.array(o["obj"].geometric_center)
                    if np.max(np.abs(gc - want_centre)) > 1e-9 * max(1.0, float(np.max(np.abs(want_centre)))):
                        ctx.violate(P, "centre", f"{kind}: geometric centre is {gc.tolist()}, expected {want_centre.tolist()}")
                    if len(got) > 1:
                        D0 = np.linalg.norm(old[:, None] - old[None, :], axis=-1)
                        D1 = np.linalg.norm(got[:, None] - got[None, :], axis=-1)
                        if np.max(np.abs(D0 - D1)) > 1e-9 * max(1.0, float(np.max(D0))):
                            ctx.violate(P, "shape", f"{kind} changed interatomic distances")
            elif kind == "refused":
                # an operation the object must refuse (arguments of the wrong shape): whatever it raises, nothing may have
                # changed, and the operations that follow behave as if it had never been tried
                k = bodies[op["pick"] % len(bodies)]
                o = M.objs[k]
                n_ = len(o["cells"])
                try:
                    if op["what"] == "rotate_2x2":
                        o["obj"].rotate(np.array([[0.0, -1.0], [1.0, 0.0]]))
                    elif op["what"] == "rotate_3x2":
                        o["obj"].rotate(np.ones((3, 2)))
                    elif op["what"] == "move_len2":
                        o["obj"].move(np.array([0.5, -0.5]))
                    elif op["what"] == "set_pos_wrong_shape":
                        o["obj"].atoms_positions = np.zeros((n_ + 1, 3))
                    else:
                        o["obj"].atoms_velocities = np.zeros((n_, 2))
                except Exception:
                    ctx.fault("refused_operation:" + op["what"])
                    ctx.op(kind, op["what"])
                    verify(ctx, M, set(), None, "refused " + op["what"], force=True)
                else:
                    # accepted: what such a call means is not specified; the object is no longer followed
                    ctx.probe("malformed_operation_accepted")
                    ctx.op(kind, op["what"] + ":accepted")
                    ctx.nontrivial = True
                    return
            elif kind == "read_centre":
                # a pure observation (as user code does between operations); must agree with the model and change nothing
                k = bodies[op["pick"] % len(bodies)]
                o = M.objs[k]
                want = np.array([M.cells[c]["pos"] for c in o["cells"]]).mean(axis=0)
                which = op["pick"] % 3
                if which == 0:
                    got = np.array(o["obj"].geometric_center)
                elif which == 1:
                    got = np.array([o["obj"].x, o["obj"].y, o["obj"].z])
                else:
                    got = want if abs(float(o["obj"].distance_to_zero) - float(np.linalg.norm(want))) <= 1e-9 * max(1.0, float(np.linalg.norm(want))) else np.full(3, np.nan)
                if not np.all(np.isfinite(got)) or np.max(np.abs(got - want)) > 1e-9 * max(1.0, float(np.max(np.abs(want)))):
                    ctx.violate(P, "centre", f"geometric centre reported as {got.tolist()}, the atoms' mean is {want.tolist()}",
                                key="read")
                ctx.op(kind, o["kind"])
                verify(ctx, M, set(), None, kind)
            elif kind == "set_pos":
                k = anyobj[op["pick"] % len(anyobj)]
                o = M.objs[k]
                n = len(o["cells"])
                arr = np.array([[rng.uniform(-9, 9) for _ in range(3)] for _ in range(n)])
                if o["kind"] in ("mol", "res"):
                    o["obj"].atoms_positions = arr.copy()
                else:
                    o["obj"].position = arr[0].copy()
                exp = {c: {"pos": arr[j]} for j, c in enumerate(o["cells"])}
                ctx.op(kind, o["kind"])
                verify(ctx, M, set(o["cells"]), exp, kind)
            elif kind == "set_vel":
                k = anyobj[op["pick"] % len(anyobj)]
                o = M.objs[k]
                n = len(o["cells"])
                if op["none"]:
                    if o["kind"] in ("mol", "res"):
                        o["obj"].atoms_velocities = None
                    else:
                        o["obj"].velocity = None
                    exp = {c: {"vel": None} for c in o["cells"]}
                else:
                    arr = np.array([[rng.uniform(-2, 2) for _ in range(3)] for _ in range(n)])
                    if o["kind"] in ("mol", "res"):
                        o["obj"].atoms_velocities = arr.copy()
                    else:
                        o["obj"].velocity = arr[0].copy()
                    exp = {c: {"vel": arr[j]} for j, c in enumerate(o["cells"])}
                ctx.op(kind, o["kind"] + ("-none" if op["none"] else ""))
                verify(ctx, M, set(o["cells"]), exp, kind)
            elif kind == "set_ids":
                k = anyobj[op["pick"] % len(anyobj)]
                o = M.objs[k]
                ids = [rng.randint(1, 90000) for _ in o["cells"]]
                if o["kind"] in ("mol", "res"):
                    o["obj"].atoms_ids = list(ids)
                else:
                    o["obj"].atomid = ids[0]
                exp = {c: {"atomid": ids[j]} for j, c in enumerate(o["cells"])}
                ctx.op(kind, o["kind"])
                verify(ctx, M, set(o["cells"]), exp, kind)
            elif kind == "set_resids":
                k = bodies[op["pick"] % len(bodies)]
                o = M.objs[k]
                if o["kind"] == "mol":
                    nres = len(o["obj"].residues)
                    per = [len(r) for r in o["obj"].residues]
                    if op["scalar"]:
                        v = rng.randint(1, 9000)
                        o["obj"].resids = v
                        vals = [v] * len(o["cells"])
                    else:
                        lst = [rng.randint(1, 9000) for _ in range(nres)]
                        o["obj"].resids = list(lst)
                        vals = [x for x, m in zip(lst, per) for _ in range(m)]
                    if o["top"] in M.top_resid:
                        M.top_resid[o["top"]] = list(vals)       # (the molecule's setter numbers its topology as well)
                else:
                    v = rng.randint(1, 9000)
                    o["obj"].resid = v
                    vals = [v] * len(o["cells"])
                exp = {c: {"resid": vals[j]} for j, c in enumerate(o["cells"])}
                ctx.op(kind, o["kind"])
                verify(ctx, M, set(o["cells"]), exp, kind)
            elif kind == "set_names":
                # only where the model says the topology is not shared (deep copies, fresh molecules)
                cand = [k for k in mols if M.tops[M.objs[k]["top"]] == 1]
                if not cand:
                    continue
                k = cand[op["pick"] % len(cand)]
                o = M.objs[k]
                # views created from this molecule share its topology object but are the same cells
                form = rng.random()
                if form < 0.3:
                    new = "X%03d" % rng.randint(0, 999)
                    o["obj"].resnames = new
                    exp = {c: {"resname": new} for c in o["cells"]}
                elif form < 0.55:
                    # one name per residue (list form); names stay pairwise distinct so that residues do not merge
                    per = [len(r) for r in o["obj"].residues]
                    names = ["L%d%s" % (rng.randint(0, 99), chr(65 + k % 26)) for k in range(len(per))]
                    o["obj"].resnames = list(names)
                    vals = [x for x, m_ in zip(names, per) for _ in range(m_)]
                    exp = {c: {"resname": vals[j]} for j, c in enumerate(o["cells"])}
                    ctx.probe("resnames_list_form")
                else:
                    j = rng.randrange(len(o["cells"]))
                    new = "Q%d" % rng.randint(0, 99)
                    o["obj"][j].name = new
                    exp = {o["cells"][j]: {"name": new}}
                ctx.op(kind, "deep-or-fresh")
                ctx.probe("names_changed_on_unshared_topology")
                verify(ctx, M, set(exp), exp, kind)
            elif kind == "view":
                k = mols[op["pick"] % len(mols)]
                o = M.objs[k]
                n = len(o["cells"])
                if op["how"] == "iter":
                    for j, a in enumerate(o["obj"]):
                        if j == op["pick"] % n:
                            M.track("atom", a, [o["cells"][j]], top=o["top"], note="view", count_top=False)
                else:
                    j = op["pick"] % n
                    if op["how"] == "np_index":
                        a = o["obj"][np.int64(j)]              # an index taken from an array (argmin, where, arange)
                        ctx.probe("molecule_indexed_with_numpy_integer")
                    else:
                        a = o["obj"][j - n] if op["how"] == "neg_index" else o["obj"][j]
                    M.track("atom", a, [o["cells"][j]], top=o["top"], note="view", count_top=False)
                ctx.op(kind, op["how"])
                verify(ctx, M, set(), None, kind)
            elif kind == "view_assign":
                k = mols[op["pick"] % len(mols)]
                o = M.objs[k]
                j = (op["pick"] // 7) % len(o["cells"])
                a = o["obj"][np.intp(j)] if op["pick"] % 5 == 0 else o["obj"][j]
                c = o["cells"][j]
                f = op["field"]
                if f == "position":
                    v = np.array([rng.uniform(-9, 9) for _ in range(3)])
                    a.position = v.copy()
                    exp = {c: {"pos": v}}
                elif f == "position_inplace":
                    v = np.array([rng.uniform(-1, 1) for _ in range(3)])
                    old = M.cells[c]["pos"].copy()
                    a.position += v
                    exp = {c: {"pos": old + v}}
                elif f == "velocity_inplace":
                    if M.cells[c]["vel"] is None:
                        continue
                    v = np.array([rng.uniform(-1, 1) for _ in range(3)])
                    old = M.cells[c]["vel"].copy()
                    a.velocity += v
                    exp = {c: {"vel": old + v}}
                elif f == "velocity":
                    v = np.array([rng.uniform(-2, 2) for _ in range(3)])
                    a.velocity = v.copy()
                    exp = {c: {"vel": v}}
                elif f == "atomid":
                    v = rng.randint(1, 90000)
                    a.atomid = v
                    exp = {c: {"atomid": v}}
                else:
                    v = rng.randint(1, 9000)
                    a.gro_resid = v
                    exp = {c: {"resid": v}}
                ctx.op(kind, f)
                ctx.probe("assignment_through_view")
                verify(ctx, M, {c}, exp, kind + ":" + f)
            elif kind == "system":
                # molecules handed out by a System built from real files of one seed species
                si = op["pick"] % len(specs)
                s = specs[si]
                if tmp is None:
                    tmp = ctx.tmpdir()
                fitp = os.path.join(tmp, f"sp{si}_{i}.itp")
                fgro = os.path.join(tmp, f"sys{si}_{i}.gro")
                with open(fitp, "w") as f:
                    f.write(gen.itp_text(s))
                lines = []
                vals_all = []
                resid, atomid = 1, 1
                vel = s.get("velocities")
                for m in range(op["count"]):
                    pos = [[round(x + 0.5 * m, 3) for x in p] for p in s["positions"]]
                    ls, nres = gen.gro_atom_lines(s, pos, resid, atomid, vel)
                    vals = []
                    r = -1
                    prev = None
                    for a_i in range(len(pos)):
                        key = (s["resnames"][a_i], s["resids"][a_i])
                        if key != prev:
                            r += 1
                            prev = key
                        vals.append({"pos": np.array([float("%8.3f" % x) for x in pos[a_i]]),
                                     "vel": None if vel is None else np.array([float("%8.4f" % x) for x in vel[a_i]]),
                                     "atomid": atomid + a_i, "resid": resid + r, "name": s["atom_names"][a_i],
                                     "resname": s["resnames"][a_i]})
                    vals_all.append(vals)
                    lines += ls
                    resid += nres
                    atomid += len(pos)
                with open(fgro, "w") as f:
                    f.write(gen.gro_text("alias system", lines, [9.0, 9.0, 9.0]))
                system = System(fgro, fitp)
                systems.append(system)
                if len(system) != op["count"]:
                    ctx.violate(P, "system-handout", f"System recognised {len(system)} molecules, the file has {op['count']}")
                    continue
                top = M.new_top()
                M.top_resid[top] = list(s["resids"])
                if op["how"] == "iter":
                    handed = [(m, mol) for m, mol in enumerate(system)]
                elif op["how"] == "slice":
                    handed = list(enumerate(system[0:op["count"]]))
                elif op["how"] == "twice":
                    handed = [(0, system[0]), (0, system[0])]
                else:
                    m = op["pick"] % op["count"]
                    handed = [(m, system[m])]
                for m, mol in handed:
                    M.track("mol", mol, M.new_cells(vals_all[m]), top=top, note="system")
                M.tops[top] += 1     # the System keeps its own template molecule on the same topology
                ctx.op(kind, op["how"])
                ctx.probe("system_handout")
                verify(ctx, M, set(), None, kind)
            elif kind == "alignment":
                k = mols[op["pick"] % len(mols)]
                o = M.objs[k]
                variant = (op["pick"] // 3) % 3
                if variant == 0:
                    # an alignment that already holds both molecules; one of them is set AGAIN (documented use)
                    other = M.objs[mols[(op["pick"] // 11) % len(mols)]]["obj"]
                    ali = Alignment(o["obj"].copy(), other.copy()) if op["pick"] % 2 else Alignment(other.copy(), o["obj"].copy())
                    ctx.probe("alignment_reassigned")
                else:
                    ali = Alignment()
                if op["pick"] % 2:
                    ali.start = o["obj"]
                    stored = ali.start
                else:
                    ali.end = o["obj"]
                    stored = ali.end
                if stored is o["obj"]:
                    ctx.violate(P, "alignment-stores-original", "Alignment stored the caller's molecule object itself")
                    continue
                M.track("mol", stored, M.new_cells(M.values_of(o), src=o["cells"]), top=o["top"], note="alignment")
                ctx.op(kind)
                ctx.probe("alignment_stored")
                verify(ctx, M, set(), None, kind)
        except Exception as e:
            import traceback
            tb = traceback.format_exc()
            ctx.op(kind, "raised")
            ctx.violate(P, "operation-raised", f"operation {kind} raised {type(e).__name__}: {e}\n{tb[-700:]}", key=kind)
            return
    verify(ctx, M, set(), None, "end of history", force=True)
    ctx.nontrivial = True


def verify(ctx, M, touched, expected, label, force=False):
    """Record what the operation should have done in the model and -- every `stride` operations -- compare every tracked
    object with the model.  `touched`: cells the operation addressed; `expected`: {cell: {field: value}} for them.
    Fields predicted by the model but not yet observed are compared to 1e-9, everything else bitwise.
    Returns True when a comparison took place and everything agreed (None when the harness did not look)."""
    if expected:
        for c, fields in expected.items():
            for f, val in fields.items():
                M.cells[c][f] = None if val is None else (np.array(val, dtype=float, copy=True) if isinstance(val, np.ndarray) else val)
                M.dirty.setdefault(c, set()).add(f)
    M.pending_labels.append(label)
    M.since += 1
    if not force and M.stride > 1 and M.since < M.stride:
        return None
    M.since = 0
    labels = M.pending_labels[-4:]
    M.pending_labels = []
    label = label if len(labels) <= 1 else " <- ".join(reversed(labels))
    key_label = labels[-1] if labels else label
    ok = True
    actual = {}     # cell -> observed dict (from the first object that shows it)
    for oi, o in enumerate(M.objs):
        try:
            vals = read_object(o)
        except AssertionError as e:
            ctx.violate(P, "inconsistent-object", f"after {label}: object {oi} ({o['kind']}, {o['note']}): {e}")
            return False
        if o["kind"] == "mol" and o.get("top") in M.top_resid and o["note"] != "view":
            try:
                got_top = [a.resid for a in o["obj"].molecule_top]
            except Exception as e:
                got_top = repr(e)
            if got_top != M.top_resid[o["top"]]:
                ctx.violate(P, "isolation", f"after {label}: the topology of object {oi} ({o['note']}) holds residue numbers "
                                            f"{got_top if isinstance(got_top, str) else got_top[:8]}, expected {M.top_resid[o['top']][:8]} (plain copies share "
                                            f"the topology, deep copies own theirs)", key=key_label.split(":")[0] + ":top_resid")
                return False
        if len(vals) != len(o["cells"]):
            ctx.violate(P, "atom-count-changed", f"after {label}: object {oi} has {len(vals)} atoms, model {len(o['cells'])}")
            return False
        for c, v in zip(o["cells"], vals):
            model = M.cells[c]
            dirty = M.dirty.get(c, ())
            for f in FIELDS:
                if f in dirty:
                    want = model[f]
                    tol = 1e-9 * max(1.0, float(np.max(np.abs(want)))) if f in ("pos", "vel") and want is not None else 0.0
                    if not same_value(f, v[f], want, tol):
                        ctx.violate(P, "operation-result", f"after {label}: object {oi} ({o['kind']}, {o['note']}) field {f} "
                                                           f"is {_show(v[f])}, the operation should give {_show(want)}",
                                    key=key_label.split(":")[0] + ":" + f + (":view" if o["note"] == "view" else ""))
                        ok = False
                else:
                    if not same_value(f, v[f], model[f]):
                        ctx.violate(P, "isolation", f"after {label}: field {f} of object {oi} ({o['kind']}, {o['note']}) changed "
                                                    f"from {_show(model[f])} to {_show(v[f])} although the operation did not "
                                                    f"address it", key=key_label.split(":")[0] + ":" + f)
                        ok = False
            if c in actual:
                for f in FIELDS:
                    if not same_value(f, actual[c][f], v[f]):
                        ctx.violate(P, "view-disagrees", f"after {label}: two handles on the same atom disagree on {f}")
                        ok = False
            else:
                actual[c] = v
        if not ok:
            return False
    for new_, orig_ in M.pending_share:
        if any(a is b for a, b in zip(new_.molecule_top, orig_.molecule_top)):
            ctx.violate(P, "isolation", "a deep copy shares topology atom objects with the original", key="deep_copy:top")
    M.pending_share = []
    # sync the model with what was observed for the predicted cells
    for c in list(M.dirty):
        if c in actual:
            for f in M.dirty[c]:
                val = actual[c][f]
                M.cells[c][f] = None if val is None else (np.array(val, copy=True) if isinstance(val, np.ndarray) else val)
            del M.dirty[c]
    return ok


def _show(v):
    if isinstance(v, np.ndarray):
        return v.tolist()
    return repr(v)
