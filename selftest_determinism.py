#!/venv/bin/python
"""Determinism self-test: for every registered check, the event-log digest of every run must be
the same (a) with 16 workers and with 3 workers, (b) under PYTHONHASHSEED=0 and under another hash
seed in fresh interpreters.  (Each check additionally executes its first 16 runs twice in one
process on every invocation.)

  selftest_determinism.py [IDs...] [--runs N] [--seeds 0,1,2]
"""
import json
import os
import subprocess
import sys
import tempfile

V = os.path.dirname(os.path.abspath(__file__))


def dump(prop, runs, seed, hashseed, workers, out):
    env = dict(os.environ, VERIF_SEED=str(seed), VERIF_HASHSEED=str(hashseed), VERIF_REPLAY_DIR="/dev/shm/det-replays")
    cp = subprocess.run([sys.executable, os.path.join(V, "check.py"), prop, "--runs", str(runs), "--workers", str(workers),
                         "--no-evidence", "--dump-digests", out], capture_output=True, text=True, env=env, timeout=3600)
    return cp.returncode, cp.stdout[-400:]


def main():
    args = sys.argv[1:]
    runs = 200
    seeds = [0]
    props = []
    i = 0
    while i < len(args):
        if args[i] == "--runs":
            runs = int(args[i + 1]); i += 2
        elif args[i] == "--seeds":
            seeds = [int(x) for x in args[i + 1].split(",")]; i += 2
        else:
            props.append(args[i]); i += 1
    if not props:
        props = [c["property_id"] for c in json.load(open(os.path.join(V, "MANIFEST.json")))["checks"]]
    bad = 0
    d = tempfile.mkdtemp(prefix="det-", dir="/dev/shm")
    for prop in props:
        for seed in seeds:
            files = []
            for tag, hs, w in (("h0w16", 0, 16), ("h0w3", 0, 3), ("h4242w16", 4242, 16)):
                out = os.path.join(d, f"{prop}-{seed}-{tag}.txt")
                rc, tail = dump(prop, runs, seed, hs, w, out)
                if rc != 0:
                    print(f"{prop} seed={seed} {tag}: exit {rc}\n{tail}")
                    bad += 1
                files.append(out)
            ref = open(files[0]).read()
            n = ref.count("\n")
            same = all(open(f).read() == ref for f in files[1:])
            print(f"{prop} seed={seed}: {n} runs, digests {'identical' if same else 'DIFFER'} across workers 16/3 and hash seeds 0/4242")
            if not same:
                bad += 1
                a = ref.splitlines()
                for f in files[1:]:
                    b = open(f).read().splitlines()
                    diff = [(x, y) for x, y in zip(a, b) if x != y][:3]
                    if diff:
                        print("   ", os.path.basename(f), diff)
    subprocess.run(["rm", "-rf", d, "/dev/shm/det-replays"])
    print("determinism self-test:", "FAILED" if bad else "ok")
    return 1 if bad else 0


if __name__ == "__main__":
    sys.exit(main())
