#!/venv/bin/python
"""Single entry point of the verification machinery.

  check.py <ID> [--tier quick|thorough] [--runs N] [--workers N]
  check.py --replay <path>

exit 0: property held on everything explored (KNOWN-FINDING lines possible)
exit 1: a line "VIOLATION property=<ID> replay=<path>" was printed
exit 2: HARNESS-ERROR (simulator fault, timeout, determinism self-check) -- never success
"""
import os
import sys

# -- fixed hash seed: re-exec once so that str hashing is the same in every process ----
_want = os.environ.get("VERIF_HASHSEED", "0")
if os.environ.get("PYTHONHASHSEED") != _want:
    env = dict(os.environ)
    env["PYTHONHASHSEED"] = _want
    os.execve(sys.executable, [sys.executable] + sys.argv, env)

VERIF_DIR = os.path.dirname(os.path.abspath(__file__))
REPO = os.path.realpath(os.environ.get("VERIF_REPO", "/repo"))
sys.path.insert(0, VERIF_DIR)
sys.path.insert(0, REPO)
os.environ.setdefault("OMP_NUM_THREADS", "1")
os.environ.setdefault("OPENBLAS_NUM_THREADS", "1")
os.environ.setdefault("MKL_NUM_THREADS", "1")

import argparse  # noqa: E402
import json  # noqa: E402
import time  # noqa: E402
from collections import Counter  # noqa: E402


def main():
    ap = argparse.ArgumentParser()
    ap.add_argument("prop", nargs="?")
    ap.add_argument("--tier", default=os.environ.get("VERIF_TIER", "quick"), choices=["quick", "thorough"])
    ap.add_argument("--runs", type=int, default=None)
    ap.add_argument("--workers", type=int, default=int(os.environ.get("VERIF_WORKERS", "0")) or None)
    ap.add_argument("--replay", default=None)
    ap.add_argument("--no-evidence", action="store_true")
    ap.add_argument("--dump-digests", default=None, help="write 'engine k digest' lines of every run to this file (self-tests)")
    ap.add_argument("--first", type=int, default=None, help="run only indices 0..N-1 of every part")
    ap.add_argument("--trace-digest", default=None, help="execute the trace of a replay file and print its digest")
    args = ap.parse_args()

    try:
        seed = int(os.environ.get("VERIF_SEED", "0"))
    except ValueError:
        seed = 0
    print(f"VERIF_SEED={seed} PYTHONHASHSEED={os.environ.get('PYTHONHASHSEED')} repo={REPO}")

    import gaddlemaps
    if not os.path.realpath(gaddlemaps.__file__).startswith(REPO + os.sep):
        print(f"HARNESS-ERROR gaddlemaps imported from {gaddlemaps.__file__}, not from {REPO}")
        return 2
    from gaddlemaps import check_backend_installed
    if check_backend_installed():
        print("HARNESS-ERROR compiled backend present: the seams over the python engine would be bypassed")
        return 2

    from sim import core
    from engines import get_engine, PROPERTIES

    if args.replay:
        return do_replay(args.replay, core, get_engine)
    if args.trace_digest:
        with open(args.trace_digest) as f:
            rep = json.load(f)
        res = core.run_trace(get_engine(rep["engine"]), rep["trace"], rep.get("focus", rep["property"]))
        print("TRACE-DIGEST", res["digest"], "harness_error" if res["harness_error"] else "ok")
        return 0

    prop = args.prop
    if prop not in PROPERTIES:
        print("unknown property", prop, "known:", sorted(PROPERTIES))
        return 2
    spec = PROPERTIES[prop]
    tier = args.tier
    parts = spec.get("parts") or [{"engine": spec["engine"], "runs": spec["runs"], "block": spec.get("block", 8)}]
    budget = float(os.environ.get("VERIF_BUDGET_S", spec.get("budget", {"quick": 120, "thorough": 1500})[tier]))
    workers = args.workers or min(16, os.cpu_count() or 4)
    t0 = time.time()
    results, truncated = [], False
    for part in parts:
        n_runs = part["runs"][tier]
        if args.first:
            n_runs = min(n_runs, args.first)
        elif args.runs:
            n_runs = max(1, int(args.runs * part["runs"][tier] / max(1, sum(q["runs"][tier] for q in parts))))
        res, trunc = core.explore(part["engine"], prop, tier, seed, n_runs, budget, workers, block=part.get("block", 8))
        for r in res:
            r["engine"] = part["engine"]
        results.extend(res)
        truncated = truncated or trunc
    wall_explore = time.time() - t0
    if args.dump_digests:
        with open(args.dump_digests, "w") as f:
            for r in results:
                f.write(f"{r.get('engine')} {r['k']} {r['digest']} {r['sig']} {len(r['violations'])}\n")

    cross_note = None
    n_cross = spec.get("cross_interpreter", {}).get(tier, 0) if not args.first else 0
    if n_cross and not os.environ.get("VERIF_NO_CROSS"):
        cross_note = cross_interpreter(prop, n_cross, results, seed, tier, core, get_engine)
        spec = dict(spec, _cross_compared=cross_note)

    known = core.load_known()
    harness_errors = [r for r in results if r.get("harness_error")]
    viol_runs = []
    known_hits = []
    for r in results:
        mine = [v for v in r["violations"] if v["property"] == prop]
        new = []
        for v in mine:
            e = core.is_known(v, known)
            if e is not None:
                known_hits.append((r["k"], v, e))
            else:
                new.append(v)
        if new:
            viol_runs.append((r, new))

    rc = 0
    replay_path = None
    # A violation that reproduces from its replay file in a fresh interpreter stands on its own: it is reported even if
    # other runs of the batch ended in a harness error (a worker killed by the watchdog, say).  Harness errors decide the
    # exit code only when no violation was confirmed -- they are never success.
    if viol_runs:
        # report the first violating run whose violation reproduces from its replay file in a fresh interpreter
        # (up to four candidates are tried before the harness itself is blamed)
        attempts = []
        for r, new in viol_runs[:4]:
            v = new[0]
            target = (v["property"], v["clause"])
            print(f"violation in run {r['k']}: clause={v['clause']} op={v['op']}\n  {v['msg']}")
            trace = r["trace"]
            engine = get_engine(r["engine"])
            if v["clause"] == "differs-across-interpreters":
                replay_path = core.write_replay(prop, seed, r["k"], r["engine"], prop, trace, trace, v)
            else:
                # minimisation executes the code under test many times: in a forked child, so that nothing it leaves
                # behind (module-level state of the library) reaches later steps of this process
                status, out = core.run_isolated(_shrink_job, (r["engine"], trace, prop, target,
                                                              float(os.environ.get("VERIF_SHRINK_S", "60"))), timeout=900)
                if status == "ok":
                    minimised, tried, vmin = out
                    vmin = vmin or v
                else:
                    minimised, tried, vmin = trace, 0, v
                replay_path = core.write_replay(prop, seed, r["k"], r["engine"], prop, minimised, trace, vmin)
                print(f"minimised after {tried} candidate executions; clause={vmin['clause']}\n  {vmin['msg']}")
            code, out = core.replay_in_fresh_process(replay_path)
            if code == 1 and "VIOLATION property=%s" % prop in out:
                print(f"VIOLATION property={prop} replay={replay_path}")
                rc = 1
                break
            attempts.append((replay_path, code, out[-500:]))
            print(f"  (replay of {replay_path} in a fresh process did not reproduce: exit {code}; trying the next violating run)")
        if rc == 0:
            # None of them fails on its own.  Blocks are executed in freshly forked processes, so what a run can still
            # depend on is the runs executed before it in its block: replay the block up to and including the run.
            rc, replay_path = history_replay(prop, spec, tier, seed, viol_runs, parts, core, get_engine)
        if rc == 0 and len(viol_runs) >= 3:
            # Violations in several independent runs, none reproducible on demand: the failure depends on interpreter state
            # the simulator does not own (object addresses reused after garbage collection, say).  Each candidate replay is
            # tried a few more times in fresh interpreters; one reproduction is a reproduction.
            for path, _code, _out in attempts:
                hits = 0
                for _try in range(6):
                    code, out = core.replay_in_fresh_process(path)
                    if code == 1 and "VIOLATION property=%s" % prop in out:
                        hits += 1
                        break
                if hits:
                    print(f"  (the replay reproduces only in some fresh interpreters: the violation depends on interpreter state "
                          f"outside the trace, e.g. object addresses; {len(viol_runs)} runs of this batch violated the property)")
                    print(f"VIOLATION property={prop} replay={path}")
                    rc, replay_path = 1, path
                    break
        if rc == 0:
            path, code, out = attempts[0]
            print(f"HARNESS-ERROR replay of {path} in a fresh process did not reproduce (exit {code}):\n{out}")
            rc = 2
    if harness_errors:
        r = harness_errors[0]
        print(f"HARNESS-ERROR engine={r.get('engine')} run={r['k']}{' (in addition to the violation above)' if rc == 1 else ''}:"
              f"\n{r['harness_error']}")
        if rc == 0:
            rc = 2
    seen_known = set()
    for k, v, e in known_hits:
        keyk = (e["property"], e["clause"], e.get("key", ""))
        if keyk in seen_known:
            continue
        seen_known.add(keyk)
        print(f"KNOWN-FINDING: property={prop} {e['what']} (first seen in run {k})")

    wall = time.time() - t0
    if not args.no_evidence:
        write_evidence(prop, spec, tier, seed, results, truncated, wall, wall_explore, len(viol_runs), workers, parts)
    ok_runs = len(results)
    print(f"{prop}: tier={tier} runs={ok_runs}{' (wall cap reached before all planned runs)' if truncated else ''} "
          f"violating_runs={len(viol_runs)} known={len(known_hits)} harness_errors={len(harness_errors)} "
          f"wall={wall:.1f}s")
    return rc


def _shrink_job(engine_name, trace, prop, target, max_s):
    from sim import core
    from engines import get_engine
    engine = get_engine(engine_name)
    minimised, tried = core.shrink(engine, trace, prop, target, max_s=max_s)
    res_min = core.run_trace(engine, minimised, prop)
    vmin = next((x for x in res_min["violations"] if (x["property"], x["clause"]) == target), None)
    return minimised, tried, vmin


def _gen_job(engine_name, seed, tier, prop, ks):
    from sim import core
    from engines import get_engine
    engine = get_engine(engine_name)
    return [core.generate_trace(engine, seed, tier, prop, j) for j in ks]


def history_replay(prop, spec, tier, seed, viol_runs, parts, core, get_engine):
    n_double = 16
    for r, new in viol_runs[:2]:
        v = new[0]
        target = (v["property"], v["clause"])
        part = next(q for q in parts if q["engine"] == r["engine"])
        block = part.get("block", 8)
        k = r["k"]
        engine = get_engine(r["engine"])
        first = (k // block) * block
        prefix = []
        status, gen = core.run_isolated(_gen_job, (r["engine"], seed, tier, prop, list(range(first, k))), timeout=600)
        if status != "ok":
            continue
        for j, t in zip(range(first, k), gen):
            prefix += [t, t] if j < n_double else [t]
        repeat = 2 if k < n_double else 1
        trace = r["trace"]
        if not core.sequence_fails(r["engine"], prefix, trace, prop, target, repeat):
            print(f"  (run {k} does not fail after the {len(prefix)} executions that preceded it in its block either)")
            continue
        small, tried = core.shrink_prefix(r["engine"], prefix, trace, prop, target, repeat,
                                          max_s=float(os.environ.get("VERIF_SHRINK_S", "60")) * 1.5)
        print(f"violation in run {k} needs state left behind by earlier runs of its block: clause={v['clause']}; "
              f"{len(small)} of {len(prefix)} preceding executions kept after {tried} candidate sequences")
        path = core.write_replay(prop, seed, k, r["engine"], prop, trace, trace, v, prefix=small, repeat=repeat)
        code, out = core.replay_in_fresh_process(path)
        if code == 1 and "VIOLATION property=%s" % prop in out:
            print(f"VIOLATION property={prop} replay={path}")
            return 1, path
        print(f"  (history replay {path} did not reproduce in a fresh process: exit {code})")
    return 0, None


def write_evidence(prop, spec, tier, seed, results, truncated, wall, wall_explore, n_viol, workers, parts):
    counters, faults, probes = Counter(), Counter(), Counter()
    sigs = set()
    steps = 0
    for r in results:
        counters.update(r["counters"])
        faults.update(r["faults"])
        probes.update(r["probes"])
        steps += r["steps"]
        if r["nontrivial"]:
            sigs.add(r["sig"])
    samples = [r["sample"] for r in results if "sample" in r][:3]
    if not samples:
        samples = [{"note": "no passing run among the first three"}]
    n = len(results)
    expected_probes = spec.get("probes", [])
    gaps = [p for p in expected_probes if probes.get(p, 0) == 0]
    ev = {
        "property_id": prop, "tier": tier, "seed": seed, "level": spec["level"],
        "wall_s": round(wall, 2), "violations": n_viol,
        "coverage": {
            "evaluations": n,
            "distinct_nontrivial": len(sigs),
            "rule": spec["rule"],
            "samples": samples,
            "runs_per_hour": int(n / max(wall_explore, 1e-6) * 3600),
            "seeds": {"VERIF_SEED": seed,
                      "runs_per_engine": {q["engine"]: sum(1 for r in results if r.get("engine") == q["engine"]) for q in parts},
                      "derivation": "run k of engine E uses random.Random(sha256(f'{seed}/{E}/{k}')), k = 0..runs-1"},
            "sim_steps": steps,
            "simulated_time": None,
            "simulated_time_note": "the library has no clock, timer or deadline; progress is counted in simulated steps "
                                   "(Monte-Carlo iterations, file operations, API operations)",
            "faults_fired": dict(sorted(faults.items())),
            "probes": dict(sorted(probes.items())),
            "probe_gaps": gaps,
            "operations": dict(sorted(counters.items())),
            "components": spec["components"],
            "schedule_dimension": spec.get("schedule_dimension", "none"),
            "workers": workers,
            "wall_cap_reached": truncated,
            "cross_interpreter_runs_compared": spec.get("_cross_compared", 0),
            "engines": [q["engine"] for q in parts],
        },
        "assumptions": spec.get("assumptions", []),
    }
    d = os.path.join(VERIF_DIR, "evidence")
    os.makedirs(d, exist_ok=True)
    tmp = os.path.join(d, f".{prop}.json.tmp")
    with open(tmp, "w") as f:
        json.dump(ev, f, indent=1, default=str)
    os.replace(tmp, os.path.join(d, f"{prop}.json"))


def cross_interpreter(prop, n, results, seed, tier, core, get_engine):
    """Re-execute the first n runs of every part in a FRESH interpreter under another hash seed and compare the
    event-log digests.  A difference is attributed to the run (as a violation where the property promises
    repeatability, else as a harness error)."""
    import subprocess
    import tempfile
    out = tempfile.mktemp(prefix="cross-", suffix=".txt", dir=core.scratch_root())
    env = dict(os.environ, VERIF_HASHSEED="7321", VERIF_SEED=str(seed), VERIF_NO_CROSS="1")
    cp = subprocess.run([sys.executable, os.path.join(VERIF_DIR, "check.py"), prop, "--tier", tier, "--first", str(n),
                         "--no-evidence", "--dump-digests", out], capture_output=True, text=True, env=env, timeout=1800)
    other = {}
    if os.path.exists(out):
        for line in open(out):
            e, k, dg = line.split()[:3]
            other[(e, int(k))] = dg
    n_cmp = 0
    for r in results:
        key = (r.get("engine"), r["k"])
        if key in other and not r.get("harness_error"):
            n_cmp += 1
            if other[key] != r["digest"]:
                engine = get_engine(r["engine"])
                if prop in getattr(engine, "NONDETERMINISM_IS_VIOLATION", ()):
                    from sim.core import derive_rng
                    rng = derive_rng(seed, r["engine"], r["k"])
                    trace = engine.generate(rng, tier, prop, r["k"]) if getattr(engine, "USES_INDEX", False) else engine.generate(rng, tier, prop)
                    r["violations"].append({"property": prop, "clause": "differs-across-interpreters",
                                            "msg": "the same seeded run gave a different event log in a fresh interpreter under "
                                                   "another PYTHONHASHSEED", "op": -1, "key": ""})
                    r["trace"] = trace
                    r["cross"] = True
                else:
                    r["harness_error"] = f"cross-interpreter determinism: digests differ for run {r['k']} of {r['engine']}"
    if n_cmp == 0:
        results[0]["harness_error"] = "cross-interpreter step compared nothing:\n" + cp.stdout[-500:] + cp.stderr[-500:]
    return n_cmp


def do_replay(path, core, get_engine):
    with open(path) as f:
        rep = json.load(f)
    engine = get_engine(rep["engine"])
    prop = rep["property"]
    if rep.get("prefix") is not None:
        for t in rep["prefix"]:
            core.run_trace(engine, t, rep.get("focus", prop))
        print(f"replay {path}: {len(rep['prefix'])} preceding executions done")
        results = [core.run_trace(engine, rep["trace"], rep.get("focus", prop)) for _ in range(int(rep.get("repeat", 1)))]
        res = next((x for x in results if any(v["property"] == prop for v in x["violations"])), results[-1])
    else:
        res = core.run_trace(engine, rep["trace"], rep.get("focus", prop))
    if rep.get("violation", {}).get("clause") == "differs-across-interpreters":
        import subprocess
        env = dict(os.environ, VERIF_HASHSEED="7321")
        cp = subprocess.run([sys.executable, os.path.join(VERIF_DIR, "check.py"), "--trace-digest", path],
                            capture_output=True, text=True, env=env, timeout=1800)
        other = [l.split()[1] for l in cp.stdout.splitlines() if l.startswith("TRACE-DIGEST")]
        print(f"replay {path}: digest here {res['digest'][:16]}, in a fresh interpreter under another hash seed "
              f"{other[0][:16] if other else None}")
        if other and other[0] != res["digest"]:
            print(f"VIOLATION property={prop} replay={path}")
            return 1
        print("replay: digests agree")
        return 0
    if res["harness_error"]:
        print("HARNESS-ERROR during replay:\n" + res["harness_error"])
        return 2
    mine = [v for v in res["violations"] if v["property"] == prop]
    print(f"replay {path}: digest={res['digest'][:16]} events={res['n_events']}")
    for v in mine:
        print(f"  clause={v['clause']} op={v['op']}: {v['msg']}")
    want = rep.get("violation", {}).get("clause")
    if mine and (want is None or any(v["clause"] == want for v in mine)):
        print(f"VIOLATION property={prop} replay={path}")
        return 1
    print("replay: no violation of", prop)
    return 0


if __name__ == "__main__":
    try:
        _rc = main()
    except SystemExit:
        raise
    except BaseException as _e:      # an uncaught exception of the harness must never look like a verdict (exit 1)
        import traceback
        print("HARNESS-ERROR uncaught exception in check.py:\n" + traceback.format_exc()[-2000:])
        _rc = 2
    sys.exit(_rc)
