"""MANIFEST.setup_cmd: verify that everything the checks need is importable offline."""
import sys, os
repo = os.environ.get("VERIF_REPO", "/repo")
sys.path.insert(0, repo)
import numpy, scipy, more_itertools  # noqa
import gaddlemaps
assert os.path.realpath(gaddlemaps.__file__).startswith(os.path.realpath(repo)), gaddlemaps.__file__
print("setup ok: numpy", numpy.__version__, "scipy", scipy.__version__, "gaddlemaps from", gaddlemaps.__file__)
