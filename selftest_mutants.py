#!/venv/bin/python
"""Sensitivity self-test: apply small source mutations to a scratch copy of /repo (under
/dev/shm, selected through VERIF_REPO, removed afterwards) and expect the relevant quick
check to exit 1 with a VIOLATION line.

  selftest_mutants.py            # all mutants
  selftest_mutants.py C14 C13    # only mutants aimed at these properties
  selftest_mutants.py -k name    # by mutant name substring
  selftest_mutants.py --patch file.diff C05 C20   # apply a diff instead and run these checks
"""
import os
import shutil
import subprocess
import sys
import tempfile
from concurrent.futures import ThreadPoolExecutor

V = os.path.dirname(os.path.abspath(__file__))
REPO = "/repo"

# (name, [props expected to fire], file, old, new)
MUTANTS = []


def M(name, props, file, old, new):
    MUTANTS.append((name, props, file, old, new))


# ---- parsers / gro ------------------------------------------------------------------
M("gro-running-count-placeholder", ["C14"], "gaddlemaps/parsers/__init__.py",
  '            self._file.write(" "*self.NUMBER_FIGURES+"\\n")',
  '            self._file.write("{:{f}d}\\n".format(1, f=self.NUMBER_FIGURES))')
M("gro-reader-skips-box-check", ["C14"], "gaddlemaps/parsers/__init__.py",
  '''        if not line:
            error_text = ("The number of atoms at the top of the file does not "''',
  '''        if not line:
            return
        if not line:
            error_text = ("The number of atoms at the top of the file does not "''')
M("gro-wrap-widens-line", ["C13"], "gaddlemaps/parsers/__init__.py",
  "                atominfo[index] = atomlist[index] % 99999 + 1",
  "                atominfo[index] = atomlist[index] % 999999 + 1")
M("gro-velocity-decimals", ["C13"], "gaddlemaps/parsers/__init__.py",
  'float_format_dict["velocities"] = float_format_dict["decimals"]+1',
  'float_format_dict["velocities"] = float_format_dict["decimals"]')
M("gro-box-triclinic-order", ["C13"], "gaddlemaps/parsers/__init__.py",
  "    index = (0, 4, 8, 1, 2, 3, 5, 6, 7)\n    nums = (float(i) for i in line.split())",
  "    index = (0, 4, 8, 1, 2, 3, 5, 7, 6)\n    nums = (float(i) for i in line.split())")
M("gro-comment-strip-all", ["C13"], "gaddlemaps/parsers/__init__.py",
  "            if value[-1] == '\\n':\n                value = value[:-1]",
  "            value = value.strip()")
# ---- topology / itp ---------------------------------------------------------------
M("itp-bonds-ignore-pairs", ["C15"], "gaddlemaps/parsers/_top_parsers.py",
  "    for key in ('constraints', 'bonds', 'pairs'):", "    for key in ('constraints', 'bonds'):")
M("itp-atom-number-is-position", ["C15"], "gaddlemaps/parsers/_top_parsers.py",
  "        bonds.append((atoms_number[bond[0]], atoms_number[bond[1]]))",
  "        bonds.append((bond[0] - 1, bond[1] - 1))")
M("top-connect-one-way", ["C15"], "gaddlemaps/components/_components_top.py",
  "        self.bonds.add(hash(atom))\n        atom.bonds.add(hash(self))",
  "        self.bonds.add(hash(atom))")
M("top-copy-shares-bonds", ["C15"], "gaddlemaps/components/_components_top.py",
  "        atom.bonds = self.bonds.copy()", "        atom.bonds = self.bonds")
M("connected-stops-at-depth", ["C15"], "gaddlemaps/components/__init__.py",
  "    while stack:\n        current = stack.pop()", "    while stack and len(seen) < 900:\n        current = stack.pop()")
M("itp-section-overwrite-again", ["C16", "C15"], "gaddlemaps/parsers/_itp_parse.py",
  "                if sec not in self:\n                    self[sec] = ItpSection(sec, [])",
  "                self[sec] = ItpSection(sec, [])")
M("itp-write-drops-pp-in-section", ["C16"], "gaddlemaps/parsers/_itp_parse.py",
  "        if self._preprocessor:\n            return self._comment", "        if self._preprocessor:\n            return ''")
M("itp-multi-comment-truncated", ["C16"], "gaddlemaps/parsers/_itp_parse.py",
  "            return spl[0], ';'.join(spl[1:])", "            return spl[0], spl[1] if spl[1].endswith('\\n') else spl[1] + '\\n'")
M("itp-header-lost-on-write", ["C16"], "gaddlemaps/parsers/_itp_parse.py",
  "                for line in section:\n                    fopen.write(line)", "                pass")
# ---- pbc --------------------------------------------------------------------------
M("pbc-floor-instead-of-round", ["C19"], "gaddlemaps/components/_residue.py",
  "            vect -= np.round(vect)", "            vect -= np.floor(vect)")
M("pbc-inv-flag-ignored", ["C19"], "gaddlemaps/components/_residue.py",
  "            if inv:\n                inv_box_vects = box_vects", "            if False:\n                inv_box_vects = box_vects")


def run_one(m, quick_runs=None):
    name, props, file, old, new = m
    scratch = tempfile.mkdtemp(prefix="mut-", dir="/dev/shm")
    try:
        dst = os.path.join(scratch, "repo")
        os.makedirs(dst)
        shutil.copytree(os.path.join(REPO, "gaddlemaps"), os.path.join(dst, "gaddlemaps"),
                        ignore=shutil.ignore_patterns("__pycache__"))
        p = os.path.join(dst, file)
        s = open(p).read()
        if old not in s:
            return name, "STALE (pattern not found)", {}
        open(p, "w").write(s.replace(old, new, 1))
        res = {}
        for prop in props:
            env = dict(os.environ, VERIF_REPO=dst, VERIF_SHRINK_S="10", VERIF_WORKERS=os.environ.get("MUT_WORKERS", "4"),
                       VERIF_REPLAY_DIR=os.path.join(scratch, "replays"))
            cp = subprocess.run([sys.executable, os.path.join(V, "check.py"), prop, "--tier", "quick", "--no-evidence"],
                                capture_output=True, text=True, env=env, timeout=1800)
            viol = any(l.startswith(f"VIOLATION property={prop} ") for l in cp.stdout.splitlines())
            res[prop] = (cp.returncode, viol, cp.stdout[-400:] if not viol else "")
        caught = all(rc == 1 and v for rc, v, _ in res.values())
        return name, "caught" if caught else "MISSED", res
    finally:
        shutil.rmtree(scratch, ignore_errors=True)


def run_patch(patch, props):
    scratch = tempfile.mkdtemp(prefix="mut-", dir="/dev/shm")
    try:
        dst = os.path.join(scratch, "repo")
        os.makedirs(dst)
        shutil.copytree(os.path.join(REPO, "gaddlemaps"), os.path.join(dst, "gaddlemaps"),
                        ignore=shutil.ignore_patterns("__pycache__"))
        cp = subprocess.run(["patch", "-p1", "-d", dst, "-i", os.path.abspath(patch)], capture_output=True, text=True)
        if cp.returncode:
            print("patch failed:", cp.stdout, cp.stderr)
            return 2
        ok = True
        for prop in props:
            env = dict(os.environ, VERIF_REPO=dst, VERIF_SHRINK_S="10", VERIF_REPLAY_DIR=os.path.join(scratch, "replays"))
            cp = subprocess.run([sys.executable, os.path.join(V, "check.py"), prop, "--tier", "quick", "--no-evidence"],
                                capture_output=True, text=True, env=env, timeout=1800)
            viol = any(l.startswith(f"VIOLATION property={prop} ") for l in cp.stdout.splitlines())
            print(f"{prop}: exit={cp.returncode} violation={viol}")
            print("   " + "\n   ".join(cp.stdout.strip().splitlines()[-5:]))
            ok = ok and viol
        return 0 if ok else 1
    finally:
        shutil.rmtree(scratch, ignore_errors=True)


def main():
    args = sys.argv[1:]
    if args and args[0] == "--patch":
        return run_patch(args[1], args[2:])
    sel = MUTANTS
    if args and args[0] == "-k":
        sel = [m for m in MUTANTS if args[1] in m[0]]
    elif args:
        sel = [m for m in MUTANTS if set(args) & set(m[1])]
    missed = 0
    with ThreadPoolExecutor(max_workers=4) as ex:
        for name, status, res in ex.map(run_one, sel):
            print(f"{status:8s} {name:40s} " + " ".join(f"{p}:exit{rc}" for p, (rc, v, _) in res.items()))
            if status != "caught":
                missed += 1
                for p, (rc, v, tail) in res.items():
                    if tail:
                        print("      " + tail.replace("\n", "\n      "))
    print(f"{len(sel) - missed}/{len(sel)} mutants caught")
    return 1 if missed else 0


if __name__ == "__main__":
    sys.exit(main())
