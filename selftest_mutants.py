#!/venv/bin/python
"""Sensitivity self-test: apply small source mutations to a scratch copy of /repo (under
/dev/shm, selected through VERIF_REPO, removed afterwards) and expect the relevant quick
check to exit 1 with a VIOLATION line.

  selftest_mutants.py            # all mutants
  selftest_mutants.py C14 C13    # only mutants aimed at these properties
  selftest_mutants.py -k name    # by mutant name substring
  selftest_mutants.py --patch file.diff C05 C20   # apply a diff instead and run these checks
"""
import os
import shutil
import subprocess
import sys
import tempfile
from concurrent.futures import ThreadPoolExecutor

V = os.path.dirname(os.path.abspath(__file__))
REPO = "/repo"

# (name, [props expected to fire], file, old, new)
MUTANTS = []


def M(name, props, file, old, new):
    MUTANTS.append((name, props, file, old, new))


# ---- parsers / gro ------------------------------------------------------------------
M("gro-running-count-placeholder", ["C14"], "gaddlemaps/parsers/__init__.py",
  '            self._file.write(" "*self.NUMBER_FIGURES+"\\n")',
  '            self._file.write("{:{f}d}\\n".format(1, f=self.NUMBER_FIGURES))')
M("gro-reader-skips-box-check", ["C14"], "gaddlemaps/parsers/__init__.py",
  '''        if not line:
            error_text = ("The number of atoms at the top of the file does not "''',
  '''        if not line:
            return
        if not line:
            error_text = ("The number of atoms at the top of the file does not "''')
M("gro-wrap-widens-line", ["C13"], "gaddlemaps/parsers/__init__.py",
  "                atominfo[index] = atomlist[index] % 99999 + 1",
  "                atominfo[index] = atomlist[index] % 999999 + 1")
M("gro-velocity-decimals", ["C13"], "gaddlemaps/parsers/__init__.py",
  'float_format_dict["velocities"] = float_format_dict["decimals"]+1',
  'float_format_dict["velocities"] = float_format_dict["decimals"]')
M("gro-box-triclinic-order", ["C13"], "gaddlemaps/parsers/__init__.py",
  "    index = (0, 4, 8, 1, 2, 3, 5, 6, 7)\n    nums = (float(i) for i in line.split())",
  "    index = (0, 4, 8, 1, 2, 3, 5, 7, 6)\n    nums = (float(i) for i in line.split())")
M("gro-comment-strip-all", ["C13"], "gaddlemaps/parsers/__init__.py",
  "            if value[-1] == '\\n':\n                value = value[:-1]",
  "            value = value.strip()")
# ---- topology / itp ---------------------------------------------------------------
M("itp-bonds-ignore-pairs", ["C15"], "gaddlemaps/parsers/_top_parsers.py",
  "    for key in ('constraints', 'bonds', 'pairs'):", "    for key in ('constraints', 'bonds'):")
M("itp-atom-number-is-position", ["C15"], "gaddlemaps/parsers/_top_parsers.py",
  "        bonds.append((atoms_number[bond[0]], atoms_number[bond[1]]))",
  "        bonds.append((bond[0] - 1, bond[1] - 1))")
M("top-connect-one-way", ["C15"], "gaddlemaps/components/_components_top.py",
  "        self.bonds.add(hash(atom))\n        atom.bonds.add(hash(self))",
  "        self.bonds.add(hash(atom))")
M("top-copy-shares-bonds", ["C15"], "gaddlemaps/components/_components_top.py",
  "        atom.bonds = self.bonds.copy()", "        atom.bonds = self.bonds")
M("connected-stops-at-depth", ["C15"], "gaddlemaps/components/__init__.py",
  "    while stack:\n        current = stack.pop()", "    while stack and len(seen) < 900:\n        current = stack.pop()")
M("itp-section-overwrite-again", ["C16", "C15"], "gaddlemaps/parsers/_itp_parse.py",
  "                if sec not in self:\n                    self[sec] = ItpSection(sec, [])",
  "                self[sec] = ItpSection(sec, [])")
M("itp-write-drops-pp-in-section", ["C16"], "gaddlemaps/parsers/_itp_parse.py",
  "        if self._preprocessor:\n            return self._comment", "        if self._preprocessor:\n            return ''")
M("itp-multi-comment-truncated", ["C16"], "gaddlemaps/parsers/_itp_parse.py",
  "            return spl[0], ';'.join(spl[1:])", "            return spl[0], spl[1] if spl[1].endswith('\\n') else spl[1] + '\\n'")
M("itp-header-lost-on-write", ["C16"], "gaddlemaps/parsers/_itp_parse.py",
  "                for line in section:\n                    fopen.write(line)", "                pass")
# ---- exchange map ---------------------------------------------------------------------
M("xmap-frames-cached-across-calls", ["C04", "C02"], "gaddlemaps/_exchage_map.py",
  "        self._calculate_refsystems(refmolecule)\n        new_mol = self._restore_molecule()",
  "        if not getattr(self, '_called', False):\n            self._calculate_refsystems(refmolecule)\n        self._called = True\n        new_mol = self._restore_molecule()")
M("xmap-projection-at-call-time", ["C04"], "gaddlemaps/_exchage_map.py",
  "        self._calculate_refsystems(refmolecule)\n        new_mol = self._restore_molecule()",
  "        self._calculate_refsystems(self._refmolecule)\n        self._make_map()\n        self._calculate_refsystems(refmolecule)\n        new_mol = self._restore_molecule()")
M("xmap-returns-target-itself", ["C04"], "gaddlemaps/_exchage_map.py",
  "        new_mol = self._targetmolecule.copy()", "        new_mol = self._targetmolecule")
M("xmap-resids-not-copied", ["C04"], "gaddlemaps/_exchage_map.py",
  "        new_mol.resids = refmolecule.resids\n", "")
M("xmap-species-check-by-name", ["C04"], "gaddlemaps/_exchage_map.py",
  "        if self._refmolecule != refmolecule:", "        if self._refmolecule.name != refmolecule.name:")
M("xmap-nonmolecule-valueerror", ["C04"], "gaddlemaps/_exchage_map.py",
  '            raise TypeError("Argument must be a Molecule")', '            raise ValueError("Argument must be a Molecule")')
M("xmap-scale-on-restore-too", ["C01"], "gaddlemaps/_exchage_map.py",
  "        return center + np.dot(proyection, vectores)", "        return center + np.dot(proyection, vectores) * (1.0 if self.scale_factor == 1 else 0.999)")
M("xmap-frame-neighbours-highest", ["C03"], "gaddlemaps/components/_components_top.py",
  "        return sorted(self.bonds)[:natoms]", "        return sorted(self.bonds)[-natoms:] if natoms else []")
M("xmap-restore-transposed", ["C01", "C02"], "gaddlemaps/_exchage_map.py",
  "        return center + np.dot(proyection, vectores)", "        return center + np.dot(vectores, proyection)")
M("xmap-two-atom-axis-random", ["C02"], "gaddlemaps/_exchage_map.py",
  "            positions = np.array([pos[0], *rand_pos, *pos[1:]])", "            positions = np.append(pos, rand_pos, axis=0)")
# ("frame-exact-zero-collinear-test" -- the collinear test reduced to `not np.any(vec3)` -- was retired after repair 9caca46:
#  with the normal re-orthogonalised against the first vector, a rounding-noise normal still gives an orthonormal frame
#  whose third vector is SOME perpendicular of the line, which is all the properties ask of collinear points.)
M("frame-fallback-z-axis-forgotten", ["C01", "C17"], "gaddlemaps/_auxilliary.py",
  "        if abs(v12) < 0.9:", "        if abs(v12) < 2:")
# ---- Monte-Carlo loop -------------------------------------------------------------------
M("mc-accept-everything", ["C09"], "gaddlemaps/_backend.py",
  "    if energy_1 <= energy_0:\n        return True\n", "    if energy_1 <= energy_0 or energy_1 > energy_0:\n        return True\n")
M("mc-accept-against-minimum", ["C09"], "gaddlemaps/_backend.py",
  "        if _accept_metropolis(chi2, chi2_new):", "        if _accept_metropolis(chi2_min, chi2_new):")
M("mc-counter-reset-on-accept", ["C09"], "gaddlemaps/_backend.py",
  "            mol2_positions = test\n            chi2 = chi2_new\n",
  "            mol2_positions = test\n            chi2 = chi2_new\n            counter = -1\n")
M("mc-rotation-without-centroid", ["C09"], "gaddlemaps/_backend.py",
  "            test = _dot(mol2_positions-mol2_com, rot_matrix) + mol2_com", "            test = _dot(mol2_positions, rot_matrix)")
M("mc-rotation-stale-centroid", ["C09"], "gaddlemaps/_backend.py",
  "            mol2_com = _mean(mol2_positions, axis=0)\n", "")
M("mc-off-by-one-stop", ["C09"], "gaddlemaps/_backend.py",
  "    while counter < n_steps:", "    while counter <= n_steps:")
M("mc-stops-one-early", ["C09"], "gaddlemaps/_backend.py",
  "    while counter < n_steps:", "    while counter < n_steps - 1 or (counter < n_steps and n_steps == 1):")
M("mc-energy-not-updated", ["C09"], "gaddlemaps/_backend.py",
  "            mol2_positions = test\n            chi2 = chi2_new\n", "            mol2_positions = test\n            chi2 = min(chi2, chi2_new)\n")
M("mc-returns-best-not-last", ["C09"], "gaddlemaps/_backend.py",
  ["    chi2_min = chi2\n    counter = 0\n", "                chi2_min = chi2\n                sys.stdout", "    print('\\n')\n    return mol2_positions"],
  ["    chi2_min = chi2\n    best = mol2_positions\n    counter = 0\n", "                chi2_min = chi2\n                best = test\n                sys.stdout", "    print('\\n')\n    return best"])
M("mc-metropolis-inverted-ratio", ["C09"], "gaddlemaps/_backend.py",
  "    return np.random.rand() <= acceptance*factor", "    return np.random.rand() <= acceptance/factor*0.0001")
M("mc-metropolis-strict", ["C09"], "gaddlemaps/_backend.py",
  "    return np.random.rand() <= acceptance*factor", "    return np.random.rand() < acceptance*factor*0.5")
M("mc-disabled-type-drawn", ["C09"], "gaddlemaps/_backend.py",
  "        change = _choice(sim_type)", "        change = _choice(sim_type) if len(sim_type) > 1 else _choice((0, 1))")
M("align-setter-no-copy", ["C06"], "gaddlemaps/_alignment.py",
  "        if (self._end is None) or (self._start is None):\n            self._start = molecule.copy()",
  "        if (self._end is None) or (self._start is None):\n            self._start = molecule")
M("align-end-setter-no-copy", ["C06"], "gaddlemaps/_alignment.py",
  "        if (self._start is None) or (self._end is None):\n            self._end = molecule.copy()",
  "        if (self._start is None) or (self._end is None):\n            self._end = molecule")
M("align-writes-result-to-start-on-tie", ["C06"], "gaddlemaps/_alignment.py",
  "        if len(self.start) < len(self.end):\n            self.start.atoms_positions = mol2_positions",
  "        if len(self.start) <= len(self.end):\n            self.start.atoms_positions = mol2_positions")
M("align-moves-end-to-start", ["C06"], "gaddlemaps/_alignment.py",
  "        self.start.move_to(self.end.geometric_center)", "        self.end.move_to(self.start.geometric_center)")
M("align-move-types-in-hash-order", ["C06"], "gaddlemaps/_alignment.py",
  "        # Move molecules to share geometric center\n", "        deformation_types = tuple(sorted(deformation_types, key=lambda t: hash(str(t) + 'x')))\n        # Move molecules to share geometric center\n")
# ---- single-atom move ----------------------------------------------------------------------
M("move-no-copy", ["C07"], "gaddlemaps/_transform_molecule.py",
  "    atoms_pos = np.copy(atoms_pos)\n", "")
M("move-skips-second-level", ["C07", "C06"], "gaddlemaps/_transform_molecule.py",
  "                queue.append((ind2, bonds[0], bonds[1]))  # type: ignore\n                wait_queue.remove(bonds[0])",
  "                if len(queue) < 2:\n                    queue.append((ind2, bonds[0], bonds[1]))  # type: ignore\n                wait_queue.remove(bonds[0])")
M("move-displ-two-neighbours-wrong-line", ["C07"], "gaddlemaps/_transform_molecule.py",
  "                             atoms_pos[bonds_info[atom_index][0][0]] -\n                             atoms_pos[bonds_info[atom_index][1][0]])\n    elif n_bonded_ref >= 3:",
  "                             atoms_pos[bonds_info[atom_index][0][0]] -\n                             atoms_pos[atom_index])\n    elif n_bonded_ref >= 3:")
M("move-displ-three-neighbours-mixed", ["C07"], "gaddlemaps/_transform_molecule.py",
  "                             atoms_pos[bonds_info[atom_index][2][0]],", "                             atoms_pos[atom_index],")
# ---- chi2 ----------------------------------------------------------------------------------
M("chi2-penalty-linear", ["C08"], "gaddlemaps/_backend.py",
  "        if n_cg_far:\n            chi2 *= 1.1**n_cg_far\n        return chi2\n\n    def chi2_molecules",
  "        if n_cg_far:\n            chi2 *= 1.1*n_cg_far\n        return chi2\n\n    def chi2_molecules")
M("chi2-restr-penalty-ignores-restrained", ["C08"], "gaddlemaps/_backend.py",
  "                    len(self.set_restriction2.union(distances.argmin(axis=1))))", "                    len(set(distances.argmin(axis=1))))")
M("chi2-all-restrained-dup-count", ["C08"], "gaddlemaps/_backend.py",
  "                                           - len(self.set_restriction2))", "                                           - len(self.restriction2))")
M("chi2-mask-uses-mobile-index", ["C08"], "gaddlemaps/_backend.py",
  "            mol1_not_restriction_mask[restriction1] = False", "            mol1_not_restriction_mask[self.restriction2 % len(mol1)] = False")
M("chi2-norestr-argmin-axis", ["C08"], "gaddlemaps/_backend.py",
  "        n_cg_far = len(mol2) - len(set(distances.argmin(axis=1)))", "        n_cg_far = len(mol2) - len(set(distances.argmin(axis=0)))")
# ---- rotation matrix ------------------------------------------------------------------------
M("rot-axis-not-normalised", ["C17"], "gaddlemaps/_auxilliary.py",
  "    norm_ax = axis / np.linalg.norm(axis)", "    norm_ax = axis / max(np.linalg.norm(axis), 1.0)")
M("rot-sin-sign-inside-skew", ["C17"], "gaddlemaps/_auxilliary.py",
  "                     [norm_ax[1], -norm_ax[0], 0]], dtype=np.float64)", "                     [norm_ax[1], norm_ax[0], 0]], dtype=np.float64)")
# ---- SystemGro ---------------------------------------------------------------------------
M("sysgro-seek-hoisted-out-of-iteration", ["C12"], "gaddlemaps/components/_system.py",
  """        for _, start, len_mol in self._molecules_ordered_all_gen():
            self._open_fgro.seek_atom(start)
            yield Residue([AtomGro(next(self._open_fgro))""",
  """        self._open_fgro.seek_atom(0)
        for _, start, len_mol in self._molecules_ordered_all_gen():
            yield Residue([AtomGro(next(self._open_fgro))""")
M("sysgro-boundary-by-name-only", ["C12"], "gaddlemaps/components/_system.py",
  "            if atom.residname == prev_atom_residname:", "            if atom.resname == current_residue[0].resname:")
M("sysgro-offset-one-block-per-kind", ["C12"], "gaddlemaps/components/_system.py",
  "            for _ in range(ammount):\n                yield (index, start_atom, len_mol)\n                start_atom += len_mol",
  "            for _ in range(ammount):\n                yield (index, start_atom, len_mol)\n                start_atom += len(self.different_molecules[0])")
M("sysgro-minus-one-special-case-lost", ["C12"], "gaddlemaps/components/_system.py",
  "                if index == -1:\n                    info = last(self._molecules_ordered_all_gen())\n                else:\n                    info = next(islice_extended(self._molecules_ordered_all_gen(),\n                                                index, index+1))\n                _, start, len_mol = info",
  "                info = next(islice_extended(self._molecules_ordered_all_gen(),\n                                            index, index+1))\n                _, start, len_mol = info")
M("grofile-seek-forgets-counter", ["C12"], "gaddlemaps/parsers/__init__.py",
  "        self._current_atom = index\n        if index > self.natoms:", "        if index > self.natoms:")
# ---- copies / views --------------------------------------------------------------------------
M("residue-atoms-not-copied", ["C18"], "gaddlemaps/components/_residue.py",
  "        return [atom.copy() for atom in self._atoms_gro]", "        return list(self._atoms_gro)")
M("molecule-init-keeps-residues", ["C18"], "gaddlemaps/components/_components.py",
  "            self._residues.append(res.copy())", "            self._residues.append(res)")
M("atomgro-copy-shares-velocity-array", ["C18"], "gaddlemaps/components/_residue.py",
  "        if self.velocity is not None:\n            input_list += list(self.velocity)\n        return AtomGro(input_list)  # type: ignore",
  "        new = AtomGro(input_list)  # type: ignore\n        new.velocity = self.velocity\n        return new")
M("molecule-rotate-per-residue", ["C18"], "gaddlemaps/components/_components.py",
  "    @property\n    def molecule_top(self) -> MoleculeTop:",
  "    def rotate(self, rotation_matrix):\n        for res in self._residues:\n            res.rotate(rotation_matrix)\n\n    @property\n    def molecule_top(self) -> MoleculeTop:")
M("molecule-moveto-first-residue-centre", ["C18"], "gaddlemaps/components/_components.py",
  "    @property\n    def molecule_top(self) -> MoleculeTop:",
  "    def move_to(self, new_position):\n        self.move(new_position - self._residues[0].geometric_center)\n\n    @property\n    def molecule_top(self) -> MoleculeTop:")
M("deep-copy-shares-topology", ["C18"], "gaddlemaps/components/_components.py",
  "        return Molecule(self._molecule_top.copy(), new_residues)", "        return Molecule(self._molecule_top, new_residues)")
M("getitem-returns-atom-copy", ["C18"], "gaddlemaps/components/_components.py",
  "        return Atom(self._molecule_top[index], self._residues[residue_index][atom_index])",
  "        return Atom(self._molecule_top[index], self._residues[residue_index][atom_index].copy())")
M("rotate-uses-matrix-not-transpose-centre-shift", ["C18"], "gaddlemaps/components/_residue.py",
  "        new_pos = np.dot(atoms_pos, np.transpose(rotation_matrix)) + com", "        new_pos = np.dot(atoms_pos + com, np.transpose(rotation_matrix))")
# ---- System recognition ------------------------------------------------------------------------
M("system-sorted-by-species", ["C11"], "gaddlemaps/components/_system.py",
  "        self._molecules_ordered.sort(key=lambda x: x[1])", "        self._molecules_ordered.sort(key=lambda x: (x[0], x[1]))")
M("system-never-new-block", ["C11"], "gaddlemaps/components/_system.py",
  "            else:\n                new_block = True\n                start_index += 1", "            else:\n                start_index += 1")
M("system-consumed-not-marked", ["C11"], "gaddlemaps/components/_system.py",
  "                av_gro[start_index:start_index+l_index_mol] = -1\n", "")
M("system-failed-load-registers-species", ["C11"], "gaddlemaps/components/_system.py",
  "        residues = self.system_gro[start_index:start_index + len(index_mol_gro)]\n        molecule = Molecule(mol_top, residues)\n        mol_index = len(self.different_molecules)\n        self.different_molecules.append(molecule)",
  "        residues = self.system_gro[start_index:start_index + len(index_mol_gro)]\n        mol_index = len(self.different_molecules)\n        self._molecules_ordered.append([mol_index, start_index, 0])\n        molecule = Molecule(mol_top, residues)\n        self._molecules_ordered.pop()\n        self.different_molecules.append(molecule)")
M("system-slice-ignores-step", ["C11"], "gaddlemaps/components/_system.py",
  "                for info in islice_extended(self._molecules_ordered_all_gen(),\n                                            index.start, index.stop,\n                                            index.step):",
  "                for info in islice_extended(self._molecules_ordered_all_gen(),\n                                            index.start, index.stop,\n                                            None):")
M("system-multi-residue-stride", ["C11"], "gaddlemaps/components/_system.py",
  "                yield (index, gro_start+i*len_mol, gro_start+(i+1)*len_mol)", "                yield (index, gro_start+i, gro_start+i+len_mol)")
# ---- restraint routing -------------------------------------------------------------------------
M("restr-reversed-unconditionally", ["C10"], "gaddlemaps/_alignment.py",
  "            molecules = [self.start, self.end]\n", "            molecules = [self.start, self.end]\n            restrictions = [i[::-1] for i in restrictions]\n")
M("restr-not-reversed-on-swap", ["C10"], "gaddlemaps/_alignment.py",
  "            restrictions = [i[::-1] for i in restrictions]\n", "")
M("remove-h-off-by-one", ["C10"], "gaddlemaps/_alignment.py",
  "            index_1map[index] = len(positions) - 1", "            index_1map[index] = len(positions)")
M("remove-h-keeps-hydrogen-restraints", ["C10"], "gaddlemaps/_alignment.py",
  "        if index_1 in index_1map:\n            new_restrictions.append((index_1map[index_1], index_2))",
  "        new_restrictions.append((index_1map.get(index_1, 0), index_2))")
M("remove-h-no-reindex", ["C10"], "gaddlemaps/_alignment.py",
  "            new_restrictions.append((index_1map[index_1], index_2))", "            new_restrictions.append((index_1, index_2))")
M("guess-residue-offset-swapped", ["C10"], "gaddlemaps/_alignment.py",
  "        restr += [(i+offset1, j+offset2) for i in group1 for j in group2]", "        restr += [(i+offset2, j+offset1) for i in group1 for j in group2]")
M("guess-split-floor-bug", ["C10"], "gaddlemaps/_alignment.py",
  "    return [alist[i*length // wanted_parts: (i+1)*length // wanted_parts]", "    return [alist[i*(length // wanted_parts): (i+1)*(length // wanted_parts)]")
M("guess-protein-accepts-unequal", ["C10"], "gaddlemaps/_alignment.py",
  "    if len(mol1.resnames) != len(mol2.resnames):", "    if False:")
M("guess-protein-offset-uses-other-length", ["C10"], "gaddlemaps/_alignment.py",
  "        offset2 += len(mol_res2)", "        offset2 += len(mol_res1)")
M("manager-deform-routed-by-position", ["C10"], "gaddlemaps/_manager.py",
  "            defor = deformation_types[name]", "            defor = list(deformation_types.values())[list(restrictions).index(name) - 1] if len(deformation_types) > 1 else deformation_types[name]")
M("manager-ignore-validated-late", ["C10"], "gaddlemaps/_manager.py",
  "                if not isinstance(val, bool):\n                    raise ValueError(('Wrong format for ignore_hydrogens. See '\n                                      'documentation of align_molecules method.'\n                                      ''))",
  "                pass")
M("manager-unknown-deform-name-ignored", ["C10"], "gaddlemaps/_manager.py",
  "        for name in deformations:\n            if name not in complete_correspondence:", "        for name in deformations:\n            if False:")
M("manager-restraint-index-not-validated", ["C10"], "gaddlemaps/_manager.py",
  "            try:\n                ind2 = mol_end[tup[1]]\n            except IndexError:\n                raise ValueError(msg_index.format(tup[1], 'final'))", "            pass")
# ---- extrapolation pipeline ---------------------------------------------------------------------
M("extrapolate-atom-counter-stuck", ["C05"], "gaddlemaps/_manager.py",
  "                    line[3] = atom_index\n                    atom_index += 1", "                    line[3] = atom_index")
M("extrapolate-counter-restarts-per-molecule", ["C05"], "gaddlemaps/_manager.py",
  "                new_mol = complete_correspondence[name].exchange_map(mol)  # type: ignore", "                new_mol = complete_correspondence[name].exchange_map(mol)  # type: ignore\n                atom_index = 1 if len(new_mol) == 1 else atom_index")
M("extrapolate-no-preflight", ["C05"], "gaddlemaps/_manager.py",
  "            if align.exchange_map is None:", "            if False:")
M("extrapolate-title-not-forwarded", ["C05"], "gaddlemaps/_manager.py",
  "            fgro.comment = self.system.system_gro.comment_line\n", "")
M("extrapolate-box-not-forwarded", ["C05"], "gaddlemaps/_manager.py",
  "            fgro.box_matrix = self.system.system_gro.box_matrix\n", "")
M("extrapolate-grouped-by-species", ["C05"], "gaddlemaps/_manager.py",
  "            for mol in self.system:\n                name = mol.name", "            for mol in sorted(self.system, key=lambda m: m.name):\n                name = mol.name")
M("extrapolate-box-transposed", ["C05"], "gaddlemaps/_manager.py",
  "            fgro.box_matrix = self.system.system_gro.box_matrix\n", "            fgro.box_matrix = self.system.system_gro.box_matrix.T\n")
M("extrapolate-uses-template-molecule", ["C05"], "gaddlemaps/_manager.py",
  "                new_mol = complete_correspondence[name].exchange_map(mol)  # type: ignore", "                new_mol = complete_correspondence[name].exchange_map(complete_correspondence[name].start if len(mol) == 2 else mol)  # type: ignore")
M("manager-scale-not-forwarded", ["C05"], "gaddlemaps/_manager.py",
  "            complete_correspondence[name].init_exchange_map(scale_factor)", "            complete_correspondence[name].init_exchange_map()")
M("manager-options-zipped-by-position", ["C10"], "gaddlemaps/_manager.py",
  "        for name in restrictions:\n            restr = restrictions[name]\n            defor = deformation_types[name]\n            ignor = ignore_hydrogens[name]",
  "        for (name, restr), defor, ignor in zip(restrictions.items(), deformation_types.values(), ignore_hydrogens.values()):")
M("premature-check-after-open", ["C05"], "gaddlemaps/_manager.py",
  ["        for align in complete_correspondence.values():\n            if align.exchange_map is None:\n                raise SystemError(('Before extrapolating the system, '\n                                   'calculate_exchange_maps method must be '\n                                   'called.'))\n",
   "        with open_coordinate_file(fgro_out, 'w') as fgro:\n            fgro.comment = self.system.system_gro.comment_line\n"],
  ["",
   "        with open_coordinate_file(fgro_out, 'w') as fgro:\n            for align in complete_correspondence.values():\n                if align.exchange_map is None:\n                    raise SystemError('calculate_exchange_maps method must be called.')\n            fgro.comment = self.system.system_gro.comment_line\n"])
# ---- command line ------------------------------------------------------------------------------
M("cli-ignores-scale", ["C20"], "gaddlemaps/_cli.py",
  "    manager.calculate_exchange_maps(scale_factor=scale)", "    manager.calculate_exchange_maps()")
M("cli-default-output-in-cwd", ["C20"], "gaddlemaps/_cli.py",
  '        out_path = os.path.join(folder, f"mapped_{basename}")', '        out_path = f"mapped_{basename}"')
M("cli-exclude-ignored", ["C20"], "gaddlemaps/_cli.py",
  "                if (args.exclude is not None) and (molecule_name in args.exclude):", "                if (args.exclude is not None) and (molecule_name in args.exclude[1:]):")
M("cli-first-coordinate-wins", ["C20"], "gaddlemaps/_cli.py",
  "                try:\n                    Molecule.from_files(coordinate_file, molecule_info[\"top_AA\"])\n                except OSError:\n                    pass\n                else:\n                    added_molecues[molecule_name][\"coor_AA\"] = coordinate_file",
  "                if coordinate_file.endswith('_AA.gro'):\n                    added_molecues[molecule_name][\"coor_AA\"] = coordinate_file")
M("cli-top-aa-by-iteration-order", ["C20"], "gaddlemaps/_cli.py",
  ["        except OSError:\n            pass\n        else:\n            used_files.add(filename)",
   "        if (filename not in used_files) and (molecule.name in added_molecues):"],
  ["        except OSError:\n            if molecule.name in added_molecues:\n                added_molecues[molecule.name][\"top_AA\"] = filename\n        else:\n            used_files.add(filename)",
   "        if False:"])
M("cli-align-skipped", ["C20"], "gaddlemaps/_cli.py",
  "    manager.align_molecules()\n", "")
M("cli-end-molecules-in-sorted-order", ["C20"], "gaddlemaps/_cli.py",
  "    manager = Manager.from_files(refrence_coordinates, *itps_cg)", "    manager = Manager.from_files(refrence_coordinates, *sorted(itps_cg))")
M("cli-discovery-keyerror-back", ["C20"], "gaddlemaps/_cli.py",
  '            if "coor_AA" not in molecule_info and "top_AA" in molecule_info:', '            if "coor_AA" not in molecule_info:')
# ---- directed-only sensitivity -------------------------------------------------------------------
M("rot-half-angle-cos", ["C17"], "gaddlemaps/_auxilliary.py",
  "    mtx = ddt + np.cos(theta) * (eye - ddt) + np.sin(theta) * skew", "    mtx = ddt + np.cos(theta) * (eye - ddt) + np.sin(theta) * skew * (1 + 1e-9)")
M("move-revisits-closing-bond", ["C07"], "gaddlemaps/_transform_molecule.py",
  "        atoms_pos[ind2] = atoms_pos[ind2] + (modulo - bond) * unit", "        atoms_pos[ind2] = atoms_pos[ind2] + (modulo - bond) * unit * (1 if len(bonds_info[ind2]) < 4 else 0.999999)")
M("chi2-only-restr-forgets-dups", ["C08"], "gaddlemaps/_backend.py",
  "            mol1_not_restriction_mask[restriction1] = False", "            mol1_not_restriction_mask[restriction1[:max(1, len(restriction1) - 1)]] = False")
# ---- pbc --------------------------------------------------------------------------
M("pbc-floor-instead-of-round", ["C19"], "gaddlemaps/components/_residue.py",
  "            vect -= np.round(vect)", "            vect -= np.floor(vect)")
M("pbc-inv-flag-ignored", ["C19"], "gaddlemaps/components/_residue.py",
  "            if inv:\n                inv_box_vects = box_vects", "            if False:\n                inv_box_vects = box_vects")


def run_one(m, quick_runs=None):
    name, props, file, old, new = m
    scratch = tempfile.mkdtemp(prefix="mut-", dir="/dev/shm")
    try:
        dst = os.path.join(scratch, "repo")
        os.makedirs(dst)
        shutil.copytree(os.path.join(REPO, "gaddlemaps"), os.path.join(dst, "gaddlemaps"),
                        ignore=shutil.ignore_patterns("__pycache__"))
        p = os.path.join(dst, file)
        s = open(p).read()
        pairs = list(zip(old, new)) if isinstance(old, list) else [(old, new)]
        for o, nw in pairs:
            if o not in s:
                return name, "STALE (pattern not found)", {}
            s = s.replace(o, nw, 1)
        open(p, "w").write(s)
        res = {}
        for prop in props:
            env = dict(os.environ, VERIF_REPO=dst, VERIF_SHRINK_S="10", VERIF_WORKERS=os.environ.get("MUT_WORKERS", "4"),
                       VERIF_REPLAY_DIR=os.path.join(scratch, "replays"))
            cp = subprocess.run([sys.executable, os.path.join(V, "check.py"), prop, "--tier", "quick", "--no-evidence"],
                                capture_output=True, text=True, env=env, timeout=1800, cwd=scratch)
            viol = any(l.startswith(f"VIOLATION property={prop} ") for l in cp.stdout.splitlines())
            res[prop] = (cp.returncode, viol, cp.stdout[-400:] if not viol else "")
        caught = all(rc == 1 and v for rc, v, _ in res.values())
        return name, "caught" if caught else "MISSED", res
    finally:
        shutil.rmtree(scratch, ignore_errors=True)


def run_patch(patch, props):
    scratch = tempfile.mkdtemp(prefix="mut-", dir="/dev/shm")
    try:
        dst = os.path.join(scratch, "repo")
        os.makedirs(dst)
        shutil.copytree(os.path.join(REPO, "gaddlemaps"), os.path.join(dst, "gaddlemaps"),
                        ignore=shutil.ignore_patterns("__pycache__"))
        cp = subprocess.run(["patch", "-p1", "-d", dst, "-i", os.path.abspath(patch)], capture_output=True, text=True)
        if cp.returncode:
            print("patch failed:", cp.stdout, cp.stderr)
            return 2
        ok = True
        for prop in props:
            env = dict(os.environ, VERIF_REPO=dst, VERIF_SHRINK_S="10", VERIF_REPLAY_DIR=os.path.join(scratch, "replays"))
            cp = subprocess.run([sys.executable, os.path.join(V, "check.py"), prop, "--tier", "quick", "--no-evidence"],
                                capture_output=True, text=True, env=env, timeout=1800)
            viol = any(l.startswith(f"VIOLATION property={prop} ") for l in cp.stdout.splitlines())
            print(f"{prop}: exit={cp.returncode} violation={viol}")
            print("   " + "\n   ".join(cp.stdout.strip().splitlines()[-5:]))
            ok = ok and viol
        return 0 if ok else 1
    finally:
        shutil.rmtree(scratch, ignore_errors=True)


def main():
    args = sys.argv[1:]
    if args and args[0] == "--patch":
        return run_patch(args[1], args[2:])
    sel = MUTANTS
    if args and args[0] == "-k":
        sel = [m for m in MUTANTS if args[1] in m[0]]
    elif args:
        sel = [m for m in MUTANTS if set(args) & set(m[1])]
    missed = 0
    with ThreadPoolExecutor(max_workers=4) as ex:
        for name, status, res in ex.map(run_one, sel):
            print(f"{status:8s} {name:40s} " + " ".join(f"{p}:exit{rc}" for p, (rc, v, _) in res.items()))
            if status != "caught":
                missed += 1
                for p, (rc, v, tail) in res.items():
                    if tail:
                        print("      " + tail.replace("\n", "\n      "))
    print(f"{len(sel) - missed}/{len(sel)} mutants caught")
    return 1 if missed else 0


if __name__ == "__main__":
    sys.exit(main())
